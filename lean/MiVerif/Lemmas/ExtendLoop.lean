import MiVerif.Gen.Loops
/-! `mi_page_free_list_extend` as regenerated from src/page.c (one `while` loop, `whileN`): the exact list of stores it makes. -/
namespace ExtendL
open GenL

abbrev Eff := List (String × List Nat)

/-- the stores that link blocks `j, j+1, …, j+m-1` of the area (block `i` at `a + i * bs`) each to its successor -/
def links (page a bs : Nat) : Nat → Nat → Eff
  | _, 0 => []
  | j, m + 1 => ("mi_block_set_next", [page, a + j * bs, a + (j + 1) * bs]) :: links page a bs (j + 1) m

theorem links_length (page a bs j m : Nat) : (links page a bs j m).length = m := by
  induction m generalizing j with
  | zero => rfl
  | succ m ih => simp [links, ih]

theorem mem_links (page a bs j m : Nat) (c : String × List Nat) (h : c ∈ links page a bs j m) :
    ∃ i, j ≤ i ∧ i < j + m ∧ c = ("mi_block_set_next", [page, a + i * bs, a + (i + 1) * bs]) := by
  induction m generalizing j with
  | zero => cases h
  | succ m ih =>
    simp only [links, List.mem_cons] at h
    rcases h with h | h
    · exact ⟨j, Nat.le_refl _, by omega, h⟩
    · obtain ⟨i, h1, h2, h3⟩ := ih (j + 1) h
      exact ⟨i, by omega, by omega, h3⟩

/-- the loop, abstractly: from block `j` it runs exactly `m` more times when `j + m` is one past the last block -/
theorem loop_exact (page a bs last : Nat) (c : Eff × Nat → Bool) (body : Eff × Nat → Eff × Nat)
    (hc : ∀ s, c s = decide (s.2 ≤ last))
    (hbody : ∀ s, body s = (s.1 ++ [("mi_block_set_next", [page, s.2, (s.2 + bs) % 18446744073709551616])], (s.2 + bs) % 18446744073709551616))
    (hbs : 0 < bs) (n : Nat) (hlast : last = a + (n - 1) * bs) (hn : 0 < n) (hfit : a + (n + 1) * bs < 18446744073709551616) :
    ∀ (m j fuel : Nat) (eff : Eff), j + m = n → m ≤ fuel →
      whileN fuel c body (eff, a + j * bs) = (eff ++ links page a bs j m, a + n * bs) := by
  intro m
  induction m with
  | zero =>
    intro j fuel eff hj _
    have hjn : j = n := by omega
    subst hjn
    have hgt : ¬ (a + j * bs ≤ last) := by
      rw [hlast]
      have : (j - 1) * bs + bs = j * bs := by
        have : j - 1 + 1 = j := by omega
        rw [← Nat.succ_mul, Nat.succ_eq_add_one, this]
      omega
    cases fuel with
    | zero => simp [whileN, links]
    | succ f =>
      unfold whileN
      rw [hc]
      simp [hgt, links]
  | succ m ih =>
    intro j fuel eff hj hf
    cases fuel with
    | zero => omega
    | succ f =>
      have hle : a + j * bs ≤ last := by
        rw [hlast]
        have : j * bs ≤ (n - 1) * bs := Nat.mul_le_mul_right _ (by omega)
        omega
      have hnext : (a + j * bs + bs) % 18446744073709551616 = a + (j + 1) * bs := by
        have e : a + j * bs + bs = a + (j + 1) * bs := by rw [Nat.succ_mul]; omega
        rw [e]
        apply Nat.mod_eq_of_lt
        have : (j + 1) * bs ≤ (n + 1) * bs := Nat.mul_le_mul_right _ (by omega)
        omega
      unfold whileN
      rw [hc]
      simp only [hle, decide_true, if_true]
      rw [hbody]
      simp only [hnext]
      rw [ih (j + 1) f _ (by omega) (by omega)]
      simp [links, List.append_assoc]

/-- **exact effect of the generated `mi_page_free_list_extend`**: for a page whose block area starts at `area` with `cap` blocks in use
    and room for `ext ≥ 1` more, the stores are: link block `cap + i` to block `cap + i + 1` for `i < ext`, then re-link the last fresh
    block to the old free list, then set `page->free` to the first fresh block -/
theorem extend_exact (ps : Nat → Nat) (cap free page bs ext stats : Nat) (hbs : 0 < bs) (hext : 0 < ext)
    (hfit : ps page + (cap + ext + 1) * bs < 18446744073709551616) :
    mi_page_free_list_extend ps cap free page bs ext stats =
      links page (ps page + cap * bs) bs 0 ext ++
        [("mi_block_set_next", [page, ps page + (cap + ext - 1) * bs, free]), ("set:free", [page, ps page + cap * bs])] := by
  unfold mi_page_free_list_extend mi_page_block_at
  have hM : ∀ k, k ≤ cap + ext + 1 → ps page + k * bs < 18446744073709551616 := by
    intro k hk
    have : k * bs ≤ (cap + ext + 1) * bs := Nat.mul_le_mul_right _ hk
    omega
  have e1 : (ps page + cap * bs % 18446744073709551616) % 18446744073709551616 = ps page + cap * bs := by
    have := hM cap (by omega)
    rw [Nat.mod_eq_of_lt (by omega : cap * bs < 18446744073709551616), Nat.mod_eq_of_lt this]
  have e2 : (((cap + ext) % 18446744073709551616 + 18446744073709551616 - 1) % 18446744073709551616) = cap + ext - 1 := by
    have hce : cap + ext < 18446744073709551616 := by
      have := hM (cap + ext) (by omega)
      have : cap + ext ≤ (cap + ext) * bs := Nat.le_mul_of_pos_right _ hbs
      omega
    rw [Nat.mod_eq_of_lt hce]
    have : cap + ext + 18446744073709551616 - 1 = (cap + ext - 1) + 18446744073709551616 := by omega
    rw [this, Nat.add_mod_right]
    exact Nat.mod_eq_of_lt (by omega)
  have e3 : (ps page + (cap + ext - 1) * bs % 18446744073709551616) % 18446744073709551616 = ps page + (cap + ext - 1) * bs := by
    have := hM (cap + ext - 1) (by omega)
    rw [Nat.mod_eq_of_lt (by omega : (cap + ext - 1) * bs < 18446744073709551616), Nat.mod_eq_of_lt this]
  simp only [e1, e2, e3]
  have hlast : ps page + (cap + ext - 1) * bs = (ps page + cap * bs) + (ext - 1) * bs := by
    have : cap + ext - 1 = cap + (ext - 1) := by omega
    rw [this, Nat.add_mul]; omega
  have hfit' : (ps page + cap * bs) + (ext + 1) * bs < 18446744073709551616 := by
    have := hM (cap + ext + 1) (Nat.le_refl _)
    have e : (cap + ext + 1) * bs = cap * bs + (ext + 1) * bs := by
      have : cap + ext + 1 = cap + (ext + 1) := by omega
      rw [this, Nat.add_mul]
    omega
  have hfuel : ext ≤ 18446744073709551616 := by
    have : ext ≤ (ext + 1) * bs := Nat.le_trans (by omega) (Nat.le_mul_of_pos_right _ hbs)
    omega
  have hloop := loop_exact page (ps page + cap * bs) bs (ps page + (cap + ext - 1) * bs) _ _ (fun s => rfl) (fun s => rfl) hbs ext hlast hext hfit'
    ext 0 18446744073709551616 [] (by omega) hfuel
  simp only [Nat.zero_mul, Nat.add_zero] at hloop
  rw [hloop]
  simp [List.append_assoc]

/-- the `next` field of the block at `addr` after the stores of an effect log (a later store wins) -/
def nextAfter (eff : Eff) (page addr : Nat) : Option Nat :=
  eff.foldl (fun acc c => match c with
    | ("mi_block_set_next", [pg, a, nx]) => if pg = page ∧ a = addr then some nx else acc
    | _ => acc) none

/-- `page->free` after the stores of an effect log -/
def freeAfter (eff : Eff) (page : Nat) : Option Nat :=
  eff.foldl (fun acc c => match c with
    | ("set:free", [pg, v]) => if pg = page then some v else acc
    | _ => acc) none

theorem addr_split (p cap k bs : Nat) : p + (cap + k) * bs = (p + cap * bs) + k * bs := by
  rw [Nat.add_mul]; omega

theorem foldl_links (page a bs : Nat) (hbs : 0 < bs) (i : Nat) : ∀ (m j : Nat) (acc : Option Nat),
    (links page a bs j m).foldl (fun acc c => match c with
        | ("mi_block_set_next", [pg, x, nx]) => if pg = page ∧ x = a + i * bs then some nx else acc
        | _ => acc) acc
      = if j ≤ i ∧ i < j + m then some (a + (i + 1) * bs) else acc := by
  intro m
  induction m with
  | zero =>
    intro j acc
    have : ¬ (j ≤ i ∧ i < j + 0) := by omega
    rw [if_neg this]; rfl
  | succ m ih =>
    intro j acc
    simp only [links, List.foldl_cons]
    rw [ih]
    by_cases hji : j = i
    · subst hji
      simp
    · have hne : ¬ (a + j * bs = a + i * bs) := by
        intro e
        have e' : j * bs = i * bs := by omega
        exact hji (Nat.eq_of_mul_eq_mul_right hbs e')
      simp only [hne, and_false, if_false]
      by_cases h1 : j + 1 ≤ i ∧ i < j + 1 + m
      · rw [if_pos h1, if_pos (by omega)]
      · rw [if_neg h1, if_neg (by omega)]

/-- **the stores of the generated `mi_page_free_list_extend` thread the fresh blocks in index order**: afterwards `page->free` is block
    `cap`, the `next` of fresh block `cap + i` is block `cap + i + 1`, and the `next` of the last fresh block is the old free list —
    the free list `[cap, …, cap + ext - 1] ++ old` of the page model's `extend` -/
theorem extend_chain (ps : Nat → Nat) (cap free page bs ext stats : Nat) (hbs : 0 < bs) (hext : 0 < ext)
    (hfit : ps page + (cap + ext + 1) * bs < 18446744073709551616) :
    freeAfter (mi_page_free_list_extend ps cap free page bs ext stats) page = some (ps page + cap * bs) ∧
    ∀ i, i < ext → nextAfter (mi_page_free_list_extend ps cap free page bs ext stats) page (ps page + (cap + i) * bs)
      = some (if i + 1 < ext then ps page + (cap + i + 1) * bs else free) := by
  rw [extend_exact ps cap free page bs ext stats hbs hext hfit]
  constructor
  · unfold freeAfter
    rw [List.foldl_append]
    have hl : ∀ (m j : Nat) (acc : Option Nat), (links page (ps page + cap * bs) bs j m).foldl (fun acc c => match c with
        | ("set:free", [pg, v]) => if pg = page then some v else acc
        | _ => acc) acc = acc := by
      intro m
      induction m with
      | zero => intro j acc; rfl
      | succ m ih => intro j acc; simp only [links, List.foldl_cons]; rw [ih]; rfl
    rw [hl]
    simp
  · intro i hi
    unfold nextAfter
    rw [List.foldl_append]
    have haddr := addr_split (ps page) cap i bs
    rw [haddr, foldl_links page (ps page + cap * bs) bs hbs i ext 0 none]
    rw [if_pos (by omega)]
    simp only [List.foldl_cons, List.foldl_nil]
    have hlastaddr : ps page + (cap + ext - 1) * bs = (ps page + cap * bs) + (ext - 1) * bs := by
      have : cap + ext - 1 = cap + (ext - 1) := by omega
      rw [this]; exact addr_split _ _ _ _
    rw [hlastaddr]
    by_cases hl : i + 1 < ext
    · have hne : ¬ ((ps page + cap * bs) + (ext - 1) * bs = (ps page + cap * bs) + i * bs) := by
        intro e
        have e' : (ext - 1) * bs = i * bs := by omega
        have := Nat.eq_of_mul_eq_mul_right hbs e'
        omega
      simp only [hne, and_false, if_false, if_pos hl]
      show some (ps page + cap * bs + (i + 1) * bs) = some (ps page + (cap + i + 1) * bs)
      have e : ps page + (cap + i + 1) * bs = ps page + cap * bs + (i + 1) * bs := by
        rw [Nat.add_assoc cap i 1]; exact addr_split _ _ _ _
      rw [e]
    · have hie : i = ext - 1 := by omega
      subst hie
      simp [hl]

end ExtendL
