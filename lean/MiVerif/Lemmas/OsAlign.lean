import MiVerif.Gen.Os
import MiVerif.Lemmas.C16Basic
/-! `mi_os_prim_alloc_aligned` as regenerated from src/os.c: the over-allocate-and-trim fallback (systems that can unmap parts of a
    mapping) keeps exactly the aligned range it reports. -/
namespace OsAlignL
open GenO

theorem align_up_same (sz a : Nat) : GenO._mi_align_up sz a = Gen._mi_align_up sz a := rfl

/-- the pieces of the over-allocation `[q, q + size + alignment)`: the kept range `[P, P + size)` with `P` the first multiple of the
    alignment at or after `q`, the trimmed-off front `[q, P)` and the trimmed-off rest; `p1` is the first, unaligned attempt -/
theorem fallback_exact (ps : Nat) (alloc : Nat → Nat → Nat → Nat → Nat → Nat → Nat) (hpf size alignment commit al il iz base p1 q P : Nat)
    (hA : alignment ≥ ps) (hpow : alignment &&& (((alignment + 18446744073709551616 - 1)) % 18446744073709551616) = 0) (ha0 : 0 < alignment)
    (ha63 : alignment < 9223372036854775808)
    (hsz : GenO._mi_align_up size ps = size)
    (hfit : size + alignment < 18446744073709551615)
    (hp1e : alloc size alignment commit (if ¬ (commit ≠ 0) then (if 0 ≠ 0 then 1 else 0) else al) il iz = p1)
    (hp1 : p1 ≠ 0) (hun : p1 % alignment ≠ 0)
    (hpart : hpf ≠ 0)
    (hqe : alloc (size + alignment) 1 commit (if 0 ≠ 0 then 1 else 0) il iz = q)
    (hq : q ≠ 0) (hqfit : q + (size + alignment) < 18446744073709551616)
    (hP : P = (q + alignment - 1) / alignment * alignment) :
    mi_os_prim_alloc_aligned ps alloc hpf size alignment commit al il iz base =
      (P, P, [("mi_os_prim_free", [p1, size, (if commit ≠ 0 then size else 0)])]
              ++ (if P - q > 0 then [("mi_os_prim_free", [q, P - q, (if commit ≠ 0 then P - q else 0)])] else [])
              ++ (if size + alignment - (P - q) - size > 0 then
                    [("mi_os_prim_free", [P + size, size + alignment - (P - q) - size, (if commit ≠ 0 then size + alignment - (P - q) - size else 0)])] else []))
    ∧ q ≤ P ∧ P < q + alignment ∧ P % alignment = 0 := by
  have hqP : q ≤ P ∧ P < q + alignment ∧ P % alignment = 0 := by
    rw [hP]
    have h1 := Nat.div_add_mod (q + alignment - 1) alignment
    have h2 := Nat.mod_lt (q + alignment - 1) ha0
    have h3 : alignment * ((q + alignment - 1) / alignment) = (q + alignment - 1) / alignment * alignment := Nat.mul_comm _ _
    refine ⟨by omega, by omega, Nat.mul_mod_left _ _⟩
  refine ⟨?_, hqP⟩
  obtain ⟨hq1, hq2, _⟩ := hqP
  unfold mi_os_prim_alloc_aligned
  have c1 : ¬ ¬ ((alignment ≥ ps) ∧ ((alignment &&& (((alignment + 18446744073709551616 - 1)) % 18446744073709551616)) = 0)) := by
    intro h; exact h ⟨hA, hpow⟩
  have e6 : (18446744073709551615 + 18446744073709551616 - alignment) % 18446744073709551616 = 18446744073709551615 - alignment := by
    have : 18446744073709551615 + 18446744073709551616 - alignment = (18446744073709551615 - alignment) + 18446744073709551616 := by omega
    rw [this, Nat.add_mod_right]; exact Nat.mod_eq_of_lt (by omega)
  have c6 : ¬ (size ≥ 18446744073709551615 - alignment) := by omega
  have e7 : (size + alignment) % 18446744073709551616 = size + alignment := Nat.mod_eq_of_lt (by omega)
  have c8 : ¬ ¬ (hpf ≠ 0) := fun h => h hpart
  have eP : mi_align_up_ptr q alignment = P := by
    unfold mi_align_up_ptr
    have h64 : (2:Nat)^64 = 18446744073709551616 := by decide
    rw [align_up_same, C16L.align_up_eq q alignment ha0 (by rw [h64]; omega), hP]
  have hpre : Int.toNat (((Int.tdiv (sw64 (((P : Nat) : Int) - ((q : Nat) : Int))) 1)) % 18446744073709551616) = P - q := by
    have : ((P : Nat) : Int) - ((q : Nat) : Int) = ((P - q : Nat) : Int) := by omega
    rw [this, C16L.sw64_small (P - q) (by omega), Int.tdiv_one]
    omega
  have epost : (((((size + alignment) + 18446744073709551616 - (P - q))) % 18446744073709551616) + 18446744073709551616 - size) % 18446744073709551616
      = size + alignment - (P - q) - size := by
    have a1 : ((size + alignment) + 18446744073709551616 - (P - q)) % 18446744073709551616 = size + alignment - (P - q) := by
      have : (size + alignment) + 18446744073709551616 - (P - q) = (size + alignment - (P - q)) + 18446744073709551616 := by omega
      rw [this, Nat.add_mod_right]; exact Nat.mod_eq_of_lt (by omega)
    rw [a1]
    have : size + alignment - (P - q) + 18446744073709551616 - size = (size + alignment - (P - q) - size) + 18446744073709551616 := by omega
    rw [this, Nat.add_mod_right]; exact Nat.mod_eq_of_lt (by omega)
  have eadd : (P + size) % 18446744073709551616 = P + size := Nat.mod_eq_of_lt (by omega)
  simp only [if_neg c1, hsz, hp1e, if_neg hp1, if_neg hun, if_pos hp1, e6, if_neg c6, e7, if_neg c8, hqe, if_neg hq, eP, hpre, epost, eadd]
  by_cases hA1 : P - q > 0 <;> by_cases hB1 : size + alignment - (P - q) - size > 0 <;> simp [hA1, hB1]

end OsAlignL

namespace OsAlignL
open GenO

/-- `_mi_os_alloc_aligned_at_offset` as regenerated: with an aligned start from the allocation underneath, the returned pointer is
    aligned at the offset and the requested size fits into the over-sized allocation -/
theorem at_offset_aligned (none : Nat) (allocA : Nat → Nat → Nat → Nat → Nat → Nat) (ps size alignment offset commit al memid start : Nat)
    (ho : 0 < offset) (ho2 : offset ≤ 33554432) (ha0 : 0 < alignment) (ha : alignment < 9223372036854775808)
    (hsz : size < 9223372036854775808)
    (hse : allocA ((size + ((GenO._mi_align_up offset alignment + 18446744073709551616 - offset) % 18446744073709551616)) % 18446744073709551616)
             alignment commit al memid = start)
    (hs0 : start ≠ 0) (hsa : start % alignment = 0) (hsfit : start + size + alignment + 33554432 < 18446744073709551616) :
    let r := _mi_os_alloc_aligned_at_offset none allocA ps size alignment offset commit al memid
    (r.1 + offset) % alignment = 0 ∧ start ≤ r.1 ∧
      r.1 + size ≤ start + (size + ((offset + alignment - 1) / alignment * alignment - offset)) := by
  intro r
  have h64 : (2:Nat)^64 = 18446744073709551616 := by decide
  have hup : GenO._mi_align_up offset alignment = (offset + alignment - 1) / alignment * alignment := by
    rw [align_up_same, C16L.align_up_eq offset alignment ha0 (by rw [h64]; omega)]
  have h1 := Nat.div_add_mod (offset + alignment - 1) alignment
  have h2 := Nat.mod_lt (offset + alignment - 1) ha0
  have h3 : alignment * ((offset + alignment - 1) / alignment) = (offset + alignment - 1) / alignment * alignment := Nat.mul_comm _ _
  generalize hU : (offset + alignment - 1) / alignment * alignment = U at hup h3
  have hU1 : offset ≤ U := by omega
  have hU2 : U < offset + alignment := by omega
  have hU3 : U % alignment = 0 := by rw [← hU]; exact Nat.mul_mod_left _ _
  have eex : (U + 18446744073709551616 - offset) % 18446744073709551616 = U - offset := by
    have : U + 18446744073709551616 - offset = (U - offset) + 18446744073709551616 := by omega
    rw [this, Nat.add_mod_right]; exact Nat.mod_eq_of_lt (by omega)
  have eov : (size + (U - offset)) % 18446744073709551616 = size + (U - offset) := Nat.mod_eq_of_lt (by omega)
  have hr : r = ((start + (U - offset)) % 18446744073709551616, none,
      if (commit ≠ 0) ∧ (U - offset > ps) then [("_mi_os_decommit", [start, U - offset])] else []) := by
    show _mi_os_alloc_aligned_at_offset none allocA ps size alignment offset commit al memid = _
    unfold _mi_os_alloc_aligned_at_offset
    rw [hup, eex, eov] at hse
    have c1 : ¬ offset > 33554432 := by omega
    have c2 : ¬ offset = 0 := by omega
    simp only [if_neg c1, if_neg c2, hup, eex, eov, hse, if_neg hs0]
    split <;> simp
  have ep : (start + (U - offset)) % 18446744073709551616 = start + (U - offset) := Nat.mod_eq_of_lt (by omega)
  rw [hr]
  simp only [ep]
  refine ⟨?_, by omega, by omega⟩
  have : start + (U - offset) + offset = start + U := by omega
  rw [this, Nat.add_mod, hsa, hU3]
  simp

end OsAlignL
