import MiVerif.Gen.Arith
/-! Hand-written prelude of the generated file Gen/Commit.lean (extract/masktr.py): the state the commit-bookkeeping functions of
    src/segment.c work on, the interpretation of the commit-mask primitives, and of the OS calls (whose answers are parameters). -/
namespace GenC

abbrev Mask := Nat → Bool

structure SegSt where
  commit : Mask        -- segment->commit_mask (one bit per 64 KiB commit unit)
  purge  : Mask        -- segment->purge_mask
  os     : Mask        -- ghost: every OS page of the unit is accessible
  expire : Int         -- segment->purge_expire
  allowPurge : Bool
  allowDecommit : Bool
  info   : Nat         -- segment_info_slices
  slices : Nat         -- segment_slices
  base   : Nat         -- address of the segment

def mUninit : Mask := fun _ => false
def mEmpty (m : Mask) : Bool := !(List.range 512).any m
def mFull (m : Mask) : Bool := (List.range 512).all m
/-- mi_commit_mask_all_set(commit, cm): every bit of `cm` is set in `commit` -/
def mAllSet (a cm : Mask) : Bool := (List.range 512).all (fun k => !cm k || a k)
def mAnySet (a cm : Mask) : Bool := (List.range 512).any (fun k => a k && cm k)
def mInter (a b : Mask) : Mask := fun k => a k && b k
def mUnion (a b : Mask) : Mask := fun k => a k || b k
def mDiff (a b : Mask) : Mask := fun k => a k && !b k
def mRange (i n : Nat) : Mask := fun k => decide (i ≤ k ∧ k < i + n)

/-- mi_segment_commit_mask: start address, size and mask, through the arithmetic regenerated from the source (Gen.Arith) -/
def commitMask (σ : SegSt) (conservative : Nat) (p size : Int) : Int × Int × Mask :=
  let r := Gen.mi_segment_commit_mask (0, 0) 0 σ.info (fun _ => σ.slices * 65536) (fun i n => (i, n)) (0, 0) σ.base conservative p.toNat size.toNat 0 0 0
  ((r.1 : Int), (r.2.1 : Int), mRange r.2.2.1 r.2.2.2)

/-- the commit units covered by the address range [start, start + size) (both multiples of the unit relative to the segment) -/
def unitsOf (σ : SegSt) (start size : Int) : Mask := mRange ((start.toNat - σ.base) / 65536) (size.toNat / 65536)

/-- _mi_os_commit with the OS's answer: a granted request makes the units accessible, a refused one changes nothing -/
def osCommit (σ : SegSt) (start size : Int) (ok : Bool) : SegSt × Bool :=
  if ok then ({ σ with os := mUnion σ.os (unitsOf σ start size) }, true) else (σ, false)

/-- _mi_os_purge with the OS layer's answer (`needsRecommit`) and whether access was really revoked (`gone`) -/
def osPurge (σ : SegSt) (start size : Int) (needsRecommit gone : Bool) : SegSt × Bool :=
  ({ σ with os := if gone then mDiff σ.os (unitsOf σ start size) else σ.os }, needsRecommit)

end GenC
