import MiVerif.Model.Delayed
namespace Delayed

@[simp] theorem held_nil : held [] = [] := rfl
@[simp] theorem held_cons (x : Flight) (l : List Flight) :
    held (x :: l) = (if x.holds then [x.b] else []) ++ held l := by
  unfold held; by_cases h : x.holds <;> simp [List.filter_cons, h]
@[simp] theorem held_append (l₁ l₂ : List Flight) : held (l₁ ++ l₂) = held l₁ ++ held l₂ := by
  unfold held; simp [List.filter_append]

@[simp] theorem nFreeing_nil : nFreeing [] = 0 := rfl
@[simp] theorem nFreeing_cons (x : Flight) (l : List Flight) :
    nFreeing (x :: l) = (if x.isFreeing then 1 else 0) + nFreeing l := by
  unfold nFreeing; by_cases h : x.isFreeing <;> simp [List.filter_cons, h] <;> omega
@[simp] theorem nFreeing_append (l₁ l₂ : List Flight) : nFreeing (l₁ ++ l₂) = nFreeing l₁ + nFreeing l₂ := by
  unfold nFreeing; simp [List.filter_append]

theorem nodup_iff_count {l : List Blk} : l.Nodup ↔ ∀ x, l.count x ≤ 1 := List.nodup_iff_count

-- a flight that is "freeing" forces nFreeing ≥ 1
theorem nFreeing_pos_of_mem {fl : List Flight} {x : Flight} (hx : x ∈ fl) (hf : x.isFreeing = true) : 1 ≤ nFreeing fl := by
  induction fl with
  | nil => cases hx
  | cons y ys ih =>
    simp only [nFreeing_cons]
    rcases List.mem_cons.mp hx with rfl | h
    · simp [hf]
    · have := ih h; omega

end Delayed
