/- OS layer (C11): which range stays mapped after each kind of OS allocation, which memory id is recorded for it,
   and what `_mi_os_free_ex` asks the OS to release.  The release side is NOT hand-written: it is `GenO._mi_os_free_ex`
   (regenerated from src/os.c, effect log).  The allocation side (mapping left behind + recorded memid, Linux path of
   mi_os_prim_alloc_aligned: over-allocate and unmap both ends) is hand-written and compared with the real
   _mi_os_alloc / _mi_os_alloc_aligned / _mi_os_alloc_aligned_at_offset through the OS shim (harness/c11.c). -/
import MiVerif.Gen.Os
namespace OsM

structure Memid where
  kind : Nat      -- MI_MEM_OS = 3, MI_MEM_OS_HUGE = 4, MI_MEM_OS_REMAP = 5, below 3: not from the OS
  base : Nat
  size : Nat
deriving DecidableEq, Repr

abbrev Mapping := Nat × Nat     -- (base, size)

structure Alloc where
  ptr : Nat            -- what the caller gets
  memid : Memid
  mapped : Mapping     -- what stays mapped for it

/-- `_mi_os_alloc(size)` when the OS returned `p` -/
def osAlloc (ps : Nat) (p size : Nat) : Alloc :=
  let g := GenO._mi_os_good_alloc_size ps size
  { ptr := p, memid := { kind := 3, base := p, size := g }, mapped := (p, g) }

/-- `_mi_os_alloc_aligned(size, alignment)` when the aligned part ends up at `p` (directly aligned, or after unmapping
    both ends of the over-allocation): `*base = p`, so the recorded size is the rounded size -/
def osAllocAligned (ps : Nat) (p size : Nat) : Alloc :=
  let g := GenO._mi_align_up (GenO._mi_os_good_alloc_size ps size) ps
  { ptr := p, memid := { kind := 3, base := p, size := GenO._mi_os_good_alloc_size ps size }, mapped := (p, g) }

/-- `_mi_os_alloc_aligned_at_offset(size, alignment, offset)` with `offset > 0`: the caller's pointer is `start + extra` -/
def osAllocAlignedAtOffset (ps : Nat) (start size alignment offset : Nat) : Alloc :=
  let extra := GenO._mi_align_up offset alignment - offset
  let a := osAllocAligned ps start (size + extra)
  { a with ptr := start + extra }

/-- the requests `_mi_os_free_ex(addr, size, still_committed, memid)` sends to the OS, as (base, size) pairs that really reach
    munmap (`mi_os_prim_free` returns at once for a NULL base or size 0) -/
def osFreeRequests (ps : Nat) (addr size : Nat) (m : Memid) : List Mapping :=
  (GenO._mi_os_free_ex m.kind m.size ps m.base addr size 1 0).filterMap fun e =>
    match e with
    | (_, [b, s, _]) => if b = 0 ∨ s = 0 then none else some (b, s)
    | (_, [b, s]) => if b = 0 ∨ s = 0 then none else some (b, s)
    | _ => none

end OsM
