import MiVerif.Lemmas.Allocate
/-! the tests `mi_segment_span_free_coalesce` makes on the neighbours of a span are determined by the representation invariant,
    so freeing any page keeps the invariant — without side conditions on what the code reads -/
namespace SegM

theorem Chain.last_ends {i e s c : Nat} {u : Bool} {pre : List Span} (h : Chain i (pre ++ [(s, c, u)]) e) : s + c = e := by
  obtain ⟨_, h2⟩ := h.split_at
  cases h2 with
  | cons _ hr => cases hr; rfl

theorem coNext_eq (g : Seg) (pre post : List Span) (s c ns nc : Nat) (u nu : Bool)
    (hr : Repr g (pre ++ (s, c, u) :: (ns, nc, nu) :: post)) : coNext g s = !nu := by
  obtain ⟨hsz, hch, hok⟩ := hr
  have hns : s + c = ns := hch.prev_ends
  subst hns
  have hx := hok (s, c, u) (by simp)
  have hy := hok (s + c, nc, nu) (by simp)
  have hyb := hch.bounds.2 (s + c, nc, nu) (by simp)
  simp only [] at hyb
  unfold coNext
  rw [hx.1]
  have h3 := hy.2.2.1
  simp only [] at h3
  cases nu
  · have : (get g (s + c)).bs = 0 := by
      have : ¬ (get g (s + c)).bs > 0 := fun h => by have := h3.1 h; cases this
      omega
    simp [this]; omega
  · have : (get g (s + c)).bs > 0 := h3.2 rfl
    have h4 : ¬ (get g (s + c)).bs = 0 := by omega
    simp [h4]

theorem coNext_last (g : Seg) (pre : List Span) (s c : Nat) (u : Bool) (hr : Repr g (pre ++ [(s, c, u)])) : coNext g s = false := by
  obtain ⟨hsz, hch, hok⟩ := hr
  have he : s + c = g.entries := hch.last_ends
  have hx := hok (s, c, u) (by simp)
  unfold coNext
  rw [hx.1]
  simp; omega

theorem sliceFirst_prev (g : Seg) (ps pc : Nat) (pu : Bool) (hpc : 0 < pc) (hx : SpanOk g (ps, pc, pu)) : sliceFirst g (ps + pc - 1) = ps := by
  unfold sliceFirst
  by_cases h1 : pc > 1
  · have := (hx.2.2.2.1 h1).1
    simp only [] at this
    rw [this]; omega
  · have hpc1 : pc = 1 := by omega
    subst hpc1
    have : (get g ps).off = 0 := hx.2.1
    have e : ps + 1 - 1 = ps := by omega
    rw [e, this]; omega

theorem coPrev_eq (g : Seg) (pre post : List Span) (ps pc s c : Nat) (pu u : Bool)
    (hr : Repr g (pre ++ (ps, pc, pu) :: (s, c, u) :: post)) : coPrev g s = !pu := by
  obtain ⟨hsz, hch, hok⟩ := hr
  have hs : ps + pc = s := hch.prev_ends
  subst hs
  have hx := hok (ps, pc, pu) (by simp)
  have hxb := hch.bounds.2 (ps, pc, pu) (by simp)
  simp only [] at hxb
  unfold coPrev
  rw [sliceFirst_prev g ps pc pu hxb.2.2 hx]
  have h3 := hx.2.2.1
  simp only [] at h3
  cases pu
  · have : (get g ps).bs = 0 := by
      have : ¬ (get g ps).bs > 0 := fun h => by have := h3.1 h; cases this
      omega
    simp [this]; omega
  · have : (get g ps).bs > 0 := h3.2 rfl
    have h4 : ¬ (get g ps).bs = 0 := by omega
    simp [h4]

theorem coPrev_first (g : Seg) (post : List Span) (s c : Nat) (u : Bool) (hr : Repr g ((s, c, u) :: post)) : coPrev g s = false := by
  obtain ⟨_, hch, _⟩ := hr
  have : s = 0 := by cases hch; rfl
  unfold coPrev; simp [this]

/-- **freeing any page keeps the representation invariant** (for some span list): whatever the neighbours are -/
theorem free_repr_exists (g : Seg) (pre post : List Span) (s c : Nat) (u : Bool) (hr : Repr g (pre ++ (s, c, u) :: post)) :
    ∃ sp', Repr (coalesce g s).1 sp' := by
  rcases List.eq_nil_or_concat pre with hpre | ⟨pre', p, hpre⟩
  · -- first span of the segment
    subst hpre
    have hp : coPrev g s = false := coPrev_first g post s c u (by simpa using hr)
    cases post with
    | nil =>
      have hn := coNext_last g [] s c u hr
      exact ⟨_, coalesce_none_repr g [] [] s c u hr hn hp⟩
    | cons y post' =>
      obtain ⟨ns, nc, nu⟩ := y
      have hn := coNext_eq g [] post' s c ns nc u nu hr
      have hns : s + c = ns := hr.chain.prev_ends
      subst hns
      cases nu
      · exact ⟨_, coalesce_next_repr g [] post' s c nc u hr (by simpa using hn) hp⟩
      · exact ⟨_, coalesce_none_repr g [] _ s c u hr (by simpa using hn) hp⟩
  · subst hpre
    obtain ⟨ps, pc, pu⟩ := p
    rw [List.concat_eq_append] at hr
    have hr' : Repr g (pre' ++ (ps, pc, pu) :: (s, c, u) :: post) := by simpa using hr
    have hp := coPrev_eq g pre' post ps pc s c pu u hr'
    have hs : ps + pc = s := hr'.chain.prev_ends
    subst hs
    cases post with
    | nil =>
      have hn := coNext_last g (pre' ++ [(ps, pc, pu)]) (ps + pc) c u (by simpa using hr)
      cases pu
      · exact ⟨_, coalesce_prev_repr g pre' [] ps pc c u hr' hn (by simpa using hp)⟩
      · exact ⟨_, coalesce_none_repr g (pre' ++ [(ps, pc, true)]) [] (ps + pc) c u hr hn (by simpa using hp)⟩
    | cons y post' =>
      obtain ⟨ns, nc, nu⟩ := y
      have hn := coNext_eq g (pre' ++ [(ps, pc, pu)]) post' (ps + pc) c ns nc u nu (by simpa using hr)
      have hns : ps + pc + c = ns := (show Chain 0 ((pre' ++ [(ps, pc, pu)]) ++ (ps + pc, c, u) :: (ns, nc, nu) :: post') g.entries from by simpa using hr.chain).prev_ends
      subst hns
      cases pu <;> cases nu
      · exact ⟨_, coalesce_both_repr g pre' post' ps pc c nc u hr' (by simpa using hn) (by simpa using hp)⟩
      · exact ⟨_, coalesce_prev_repr g pre' _ ps pc c u hr' (by simpa using hn) (by simpa using hp)⟩
      · exact ⟨_, coalesce_next_repr g (pre' ++ [(ps, pc, true)]) post' (ps + pc) c nc u (by simpa using hr) (by simpa using hn) (by simpa using hp)⟩
      · exact ⟨_, coalesce_none_repr g (pre' ++ [(ps, pc, true)]) _ (ps + pc) c u (by simpa using hr) (by simpa using hn) (by simpa using hp)⟩

/-- allocation at the start of a free span keeps the invariant (exact fit or split) -/
theorem alloc_repr_exists (g : Seg) (sp : List Span) (s c k : Nat) (hr : Repr g sp) (hm : (s, c, false) ∈ sp) (hk : 0 < k) (hkc : k ≤ c) :
    ∃ sp', Repr (allocAt g s k) sp' ∧ (s, k, true) ∈ sp' := by
  obtain ⟨pre, post, rfl⟩ := List.append_of_mem hm
  by_cases he : k = c
  · subst he
    exact ⟨_, allocate_exact_repr g pre post s k hr, by simp⟩
  · exact ⟨_, allocate_split_repr g pre post s c k hk (by omega) hr, by simp⟩

/-- what `findAndAllocate` does once the queue search has chosen span `i` is `allocAt` -/
theorem findAndAllocate_is_allocAt (g : Seg) (count i : Nat) (h : (findAndAllocate g count).2 = some i) :
    (findAndAllocate g count).1 = allocAt g i (if count = 0 then 1 else count) := by
  unfold findAndAllocate at h ⊢
  simp only [] at h ⊢
  split at h
  · cases h
  · rename_i j hj
    simp only [Option.some.injEq] at h
    subst h
    rfl

/-- a fresh segment (info slices as a used span, the rest one free span) satisfies the invariant -/
theorem init_repr (entries info : Nat) (hi : 0 < info) (hie : info < entries) :
    Repr (init entries info) [(0, info, true), (info, entries - info, false)] := by
  unfold init
  simp only []
  have hsz0 : ({ slices := Array.replicate (entries + 1) {}, entries := entries, used := 0, queues := Array.replicate 36 [] } : Seg).slices.size
      = ({ slices := Array.replicate (entries + 1) {}, entries := entries, used := 0, queues := Array.replicate 36 [] } : Seg).entries + 1 := by simp
  generalize hg0 : ({ slices := Array.replicate (entries + 1) {}, entries := entries, used := 0, queues := Array.replicate 36 [] } : Seg) = g0 at hsz0
  have he0 : g0.entries = entries := by rw [← hg0]
  have hfit0 : 0 + info ≤ g0.entries := by omega
  have hok1 : SpanOk (spanAllocate g0 0 info) (0, info, true) := spanAllocate_ok g0 0 info hi hfit0 hsz0
  have hsz1 : (spanAllocate g0 0 info).slices.size = (spanAllocate g0 0 info).entries + 1 := by
    rw [spanAllocate_eq]; unfold spanAllocate'; simp only []
    split <;> simp [setFollowers_size, setFollowers_entries, hsz0]
  have he1 : (spanAllocate g0 0 info).entries = entries := by
    rw [spanAllocate_eq]; unfold spanAllocate'; simp only []
    split <;> simp [setFollowers_entries, he0]
  generalize spanAllocate g0 0 info = g1 at hok1 hsz1 he1
  have hsz2 : ({ g1 with used := 0 } : Seg).slices.size = ({ g1 with used := 0 } : Seg).entries + 1 := hsz1
  have hok2 : SpanOk ({ g1 with used := 0 } : Seg) (0, info, true) := hok1
  have he2 : ({ g1 with used := 0 } : Seg).entries = entries := he1
  generalize ({ g1 with used := 0 } : Seg) = g2 at hsz2 hok2 he2
  have hfit2 : info + (entries - info) ≤ g2.entries := by omega
  refine ⟨?_, ?_, ?_⟩
  · rw [spanFree_size, spanFree_entries]; exact hsz2
  · rw [spanFree_entries, he2]
    have h2 : Chain info [(info, entries - info, false)] entries := by
      have h3 : Chain info [(info, entries - info, false)] (info + (entries - info)) := Chain.cons (by omega) (Chain.nil _)
      have : info + (entries - info) = entries := by omega
      rw [this] at h3; exact h3
    have h1 : Chain 0 [(0, info, true), (0 + info, entries - info, false)] entries := Chain.cons hi (by rw [Nat.zero_add]; exact h2)
    rw [Nat.zero_add] at h1; exact h1
  · intro z hz
    rcases List.mem_cons.mp hz with rfl | hz
    · exact spanFree_frame _ _ _ (by omega) hfit2 hsz2 _ hi (Or.inl (by simp)) hok2
    · rcases List.mem_cons.mp hz with rfl | hz
      · exact spanFree_ok _ _ _ (by omega) hfit2 hsz2
      · cases hz

/-- page allocation and page free on a segment, addressed by the first slice of the span -/
inductive SegOp where
  | alloc (s k : Nat)
  | free (s : Nat)

def segStep (g : Seg) : SegOp → Seg
  | .alloc s k => allocAt g s k
  | .free s => (coalesce g s).1

/-- the operation addresses what the code addresses: the start of a free span that is large enough / the start of a span -/
def SegOp.enabled (g : Seg) : SegOp → Prop
  | .alloc s k => ∃ sp c, Repr g sp ∧ (s, c, false) ∈ sp ∧ 0 < k ∧ k ≤ c
  | .free s => ∃ sp c u, Repr g sp ∧ (s, c, u) ∈ sp

def SegOpsOk : Seg → List SegOp → Prop
  | _, [] => True
  | g, op :: ops => op.enabled g ∧ SegOpsOk (segStep g op) ops


end SegM
