// C06 (and the decision part of C05): entry-point layer on the real allocator of the current tree.
//  * "E <fn> <args> -> <null?> <errno> <out-changed?>" lines: decisions of the real entry points on malformed and
//    well-formed argument tuples; the Lean driver evaluates the generated wrappers (Gen/Entry.lean) with stand-in
//    allocator oracles on the same tuples and compares (translator validation of the wrapper layer).
//  * "R ..." lines: realloc decisions (old usable size, new size -> moved?) compared with the generated predicate.
//  * FAIL lines: the property oracle, independent of the model: a failing call returns NULL / EINVAL / ENOMEM,
//    leaves the out-parameter and the old block alone, and does not change the set or contents of live blocks;
//    a well-formed moderate request succeeds.
#include VERIF_STATIC_C
#include <stdio.h>
#include <stdlib.h>
#include <errno.h>
static int nfail = 0;
#define FAIL(key, ...) do { if (nfail++ < 40) { printf("FAIL %s ", key); printf(__VA_ARGS__); printf("\n"); } } while (0)
static uint64_t rs = 88172645463325252ULL;
static uint64_t rnd(void) { rs ^= rs << 13; rs ^= rs >> 7; rs ^= rs << 17; return rs; }

// ---- shadow of live blocks
enum { NLIVE = 400 };
static struct { uint8_t* p; size_t n; uint8_t pat; } live[NLIVE];
static void fill(int i) { memset(live[i].p, live[i].pat, live[i].n); }
static int intact(int i) { for (size_t k = 0; k < live[i].n; k++) if (live[i].p[k] != live[i].pat) return 0; return 1; }
static size_t nblocks; static bool count_visitor(const mi_heap_t* h, const mi_heap_area_t* a, void* b, size_t bs, void* arg) { (void)h; (void)a; (void)bs; (void)arg; if (b) nblocks++; return true; }
static size_t heap_blocks(void) { nblocks = 0; mi_heap_visit_blocks(mi_heap_get_default(), true, &count_visitor, NULL); return nblocks; }
static void check_unchanged(const char* what, size_t before) {
  size_t after = heap_blocks();
  if (after != before) FAIL("failing_call_changed_heap", "%s: live blocks %zu -> %zu", what, before, after);
  static unsigned calls = 0;   // the full content scan is expensive: every 64th call and whenever `what` says so
  if ((calls++ % 64) == 0 || what[0] == 'a' || what[0] == 'e')
    for (int i = 0; i < NLIVE; i++) if (live[i].p && !intact(i)) { FAIL("failing_call_corrupted_block", "%s: block %d", what, i); break; }
}
static const size_t BIG[] = { (size_t)MI_MAX_ALLOC_SIZE + 1, ((size_t)1 << 48), (size_t)PTRDIFF_MAX - 8, (size_t)PTRDIFF_MAX, (size_t)PTRDIFF_MAX + 1, SIZE_MAX / 2 + 1000,
  SIZE_MAX - 65536, SIZE_MAX - 4096, SIZE_MAX - 4095, SIZE_MAX - 32, SIZE_MAX - 16, SIZE_MAX - 8, SIZE_MAX - 7, SIZE_MAX - 1, SIZE_MAX };
#define NBIG (sizeof(BIG)/sizeof(BIG[0]))
static const size_t MOD[] = { 0, 1, 7, 8, 9, 16, 17, 24, 63, 64, 65, 100, 127, 128, 1000, 1024, 1025, 4000, 4096, 4097, 8192, 10000, 65535, 65536, 65537, 100000, 131072, 1000000, 4 * 1024 * 1024, 20 * 1024 * 1024 };
#define NMOD (sizeof(MOD)/sizeof(MOD[0]))
static const size_t GOODAL[] = { 1, 2, 4, 8, 16, 32, 64, 128, 256, 1024, 4096, 8192, 65536, 131072, 1 << 20, 1 << 22 };
#define NGOODAL (sizeof(GOODAL)/sizeof(GOODAL[0]))
static const size_t BADAL[] = { 0, 3, 5, 6, 7, 12, 24, 48, 100, 1000, 4095, 4097, 65535, 3 << 20, ((size_t)1 << 40) + 1, SIZE_MAX, SIZE_MAX - 1, ((size_t)1 << 63) + 1 };
#define NBADAL (sizeof(BADAL)/sizeof(BADAL[0]))

static size_t n_eval = 0, n_fail_paths = 0, n_ok_paths = 0;
static void expect_null(const char* fn, void* r, size_t a, size_t b, size_t c, size_t before) {
  n_eval++; n_fail_paths++;
  printf("E %s %zu %zu %zu -> %d\n", fn, a, b, c, r == NULL);
  if (r != NULL) { FAIL("malformed_request_succeeded", "%s(%zu,%zu,%zu) returned %p", fn, a, b, c, r); mi_free(r); return; }
  check_unchanged(fn, before);
}
static void expect_ok(const char* fn, void* r, size_t size, size_t al, size_t off) {
  n_eval++; n_ok_paths++;
  printf("E %s %zu %zu %zu -> %d\n", fn, size, al, off, r == NULL);
  if (r == NULL) { FAIL("wellformed_request_failed", "%s(size=%zu,align=%zu,off=%zu) returned NULL", fn, size, al, off); return; }
  if (mi_usable_size(r) < size) FAIL("usable_lt_size", "%s size=%zu usable=%zu", fn, size, mi_usable_size(r));
  if (al > 0 && (((uintptr_t)r + off) % al) != 0) FAIL("misaligned", "%s size=%zu align=%zu off=%zu p=%p", fn, size, al, off, r);
  memset(r, 0x5A, size);
  for (int i = 0; i < NLIVE; i += 37) if (live[i].p && !intact(i)) { FAIL("neighbour_corrupted", "%s size=%zu", fn, size); break; }
  mi_free(r);
}

int main(int argc, char** argv) {
  uint64_t seed = argc > 1 ? strtoull(argv[1], 0, 10) : 1;
  int thorough = argc > 2 ? atoi(argv[2]) : 0;
  rs ^= seed * 0x9E3779B97F4A7C15ULL; if (rs == 0) rs = 1;
  mi_option_set(mi_option_show_errors, 0); mi_option_set(mi_option_max_errors, 0); mi_option_set(mi_option_max_warnings, 0); mi_option_set(mi_option_verbose, 0);
  printf("consts %zu %zu\n", (size_t)MI_MAX_ALLOC_SIZE, _mi_os_page_size());
  for (int i = 0; i < NLIVE; i++) { size_t n = (i % 7 == 0) ? 70000 + rnd() % 200000 : 1 + rnd() % (i % 3 ? 200 : 5000); live[i].p = (uint8_t*)mi_malloc(n); live[i].n = n; live[i].pat = (uint8_t)(1 + rnd() % 250); fill(i); }
  size_t before = heap_blocks();
  // ---- malformed: count*size overflow
  for (size_t i = 0; i < NBIG; i++) for (size_t j = 0; j < NBIG + 6; j++) {
    size_t c = BIG[i], s = j < NBIG ? BIG[j] : (size_t[]){2, 3, 16, 4096, 65537, (size_t)1 << 32}[j - NBIG];
    unsigned __int128 prod = (unsigned __int128)c * s; if (prod <= SIZE_MAX) continue;
    expect_null("calloc", mi_calloc(c, s), c, s, 0, before); expect_null("mallocn", mi_mallocn(c, s), c, s, 0, before);
    expect_null("calloc", mi_calloc(s, c), s, c, 0, before);
    expect_null("calloc_aligned", mi_calloc_aligned(c, s, 64), c, s, 64, before);
    expect_null("calloc_aligned_at", mi_calloc_aligned_at(c, s, 64, 8), c, s, 64, before);
    int k = (int)(rnd() % NLIVE); uint8_t* old = live[k].p;
    void* r = mi_reallocn(old, c, s); expect_null("reallocn", r, c, s, 0, before);
    r = mi_recalloc(old, c, s); expect_null("recalloc", r, c, s, 0, before);
    r = mi_recalloc_aligned(old, c, s, 32); expect_null("recalloc_aligned", r, c, s, 32, before);
    errno = 0; r = mi_reallocarray(old, c, s); expect_null("reallocarray", r, c, s, 0, before);
    if (errno != ENOMEM) FAIL("reallocarray_errno", "count=%zu size=%zu errno=%d", c, s, errno);
    { void* q = old; errno = 0; int e = mi_reallocarr(&q, c, s); n_eval++; if (e == 0 || q != old) FAIL("reallocarr_overflow", "count=%zu size=%zu e=%d", c, s, e); check_unchanged("reallocarr", before); }
    if (!intact(k)) FAIL("old_block_modified", "reallocn overflow block %d", k);
  }
  // ---- malformed: size above the maximum
  for (size_t i = 0; i < NBIG; i++) { size_t s = BIG[i];
    expect_null("malloc", mi_malloc(s), s, 0, 0, before); expect_null("zalloc", mi_zalloc(s), s, 0, 0, before);
    expect_null("calloc", mi_calloc(1, s), 1, s, 0, before); expect_null("mallocn", mi_mallocn(1, s), 1, s, 0, before);
    for (size_t a = 0; a < NGOODAL; a += 3) { expect_null("malloc_aligned", mi_malloc_aligned(s, GOODAL[a]), s, GOODAL[a], 0, before);
      expect_null("zalloc_aligned_at", mi_zalloc_aligned_at(s, GOODAL[a], 8), s, GOODAL[a], 8, before);
      expect_null("memalign", mi_memalign(GOODAL[a], s), s, GOODAL[a], 0, before); expect_null("aligned_alloc", mi_aligned_alloc(GOODAL[a], s), s, GOODAL[a], 0, before); }
    int k = (int)(rnd() % NLIVE); uint8_t* old = live[k].p;
    expect_null("realloc", mi_realloc(old, s), s, 0, 0, before); expect_null("rezalloc", mi_rezalloc(old, s), s, 0, 0, before);
    expect_null("realloc_aligned", mi_realloc_aligned(old, s, 64), s, 64, 0, before);
    if (!intact(k)) FAIL("old_block_modified", "realloc oversize block %d", k);
    { void* out = (void*)0x1234; int e = mi_posix_memalign(&out, 64, s); n_eval++; printf("E posix_memalign %zu %zu 0 -> %d\n", s, (size_t)64, e);
      if (e != ENOMEM || out != (void*)0x1234) FAIL("posix_memalign_nomem", "size=%zu e=%d out=%p", s, e, out); check_unchanged("posix_memalign", before); }
    expect_null("valloc", mi_valloc(s), s, 0, 0, before); expect_null("pvalloc", mi_pvalloc(s), s, 0, 0, before);
    { uint8_t* blk = (uint8_t*)mi_malloc(100); memset(blk, 0x77, 100); void* r = mi_reallocf(blk, s); n_eval++; if (r != NULL) FAIL("reallocf_oversize", "size=%zu", s); check_unchanged("reallocf (block freed, set as before)", before); }
  }
  // ---- malformed: alignment zero or not a power of two
  for (size_t a = 0; a < NBADAL; a++) for (size_t m = 0; m < NMOD; m += 2) { size_t al = BADAL[a], s = MOD[m];
    expect_null("malloc_aligned", mi_malloc_aligned(s, al), s, al, 0, before); expect_null("zalloc_aligned", mi_zalloc_aligned(s, al), s, al, 0, before);
    expect_null("malloc_aligned_at", mi_malloc_aligned_at(s, al, 8), s, al, 8, before); expect_null("calloc_aligned", mi_calloc_aligned(1, s, al), 1, s, al, before);
    expect_null("memalign", mi_memalign(al, s), s, al, 0, before); expect_null("aligned_alloc", mi_aligned_alloc(al, s), s, al, 0, before);
    { void* out = (void*)0x1234; int e = mi_posix_memalign(&out, al, s); n_eval++; printf("E posix_memalign %zu %zu 0 -> %d\n", s, al, e);
      if (e != EINVAL || out != (void*)0x1234) FAIL("posix_memalign_einval", "align=%zu size=%zu e=%d out=%p", al, s, e, out); check_unchanged("posix_memalign", before); }
    if (al > 8) { int k = (int)(rnd() % NLIVE); expect_null("realloc_aligned", mi_realloc_aligned(live[k].p, live[k].n * 3 + 1000, al), live[k].n * 3 + 1000, al, 0, before); if (!intact(k)) FAIL("old_block_modified", "realloc_aligned bad alignment block %d", k); }
  }
  { int e = mi_posix_memalign(NULL, 64, 100); n_eval++; if (e != EINVAL) FAIL("posix_memalign_einval", "NULL out-pointer e=%d", e); }
  { void* out = (void*)0x1234; int e = mi_posix_memalign(&out, 4, 100); n_eval++; printf("E posix_memalign %zu %zu 0 -> %d\n", (size_t)100, (size_t)4, e); if (e != EINVAL || out != (void*)0x1234) FAIL("posix_memalign_einval", "align 4 e=%d", e); }
  { int e = mi_reallocarr(NULL, 2, 2); n_eval++; if (e != EINVAL) FAIL("reallocarr_null", "e=%d", e); }
  check_unchanged("all malformed requests", before);
  // ---- well-formed moderate requests succeed (the OS is not refusing anything here)
  for (size_t m = 0; m < NMOD; m++) { size_t s = MOD[m];
    expect_ok("malloc", mi_malloc(s), s, 0, 0); expect_ok("zalloc", mi_zalloc(s), s, 0, 0); expect_ok("calloc", mi_calloc(1, s), s, 0, 0);
    if (s > 0 && s % 4 == 0) expect_ok("calloc", mi_calloc(s / 4, 4), s, 0, 0);
    expect_ok("mallocn", mi_mallocn(s, 1), s, 0, 0);
    if (s <= MI_SMALL_SIZE_MAX) { expect_ok("malloc_small", mi_malloc_small(s), s, 0, 0); expect_ok("zalloc_small", mi_zalloc_small(s), s, 0, 0); }
    for (size_t a = 0; a < NGOODAL; a += (thorough ? 1 : 2)) { size_t al = GOODAL[a];
      expect_ok("malloc_aligned", mi_malloc_aligned(s, al), s, al, 0); expect_ok("zalloc_aligned", mi_zalloc_aligned(s, al), s, al, 0);
      size_t off = (s >= 16 ? 8 * (rnd() % (s / 8)) : 0);
      expect_ok("malloc_aligned_at", mi_malloc_aligned_at(s, al, off), s, al, off);
      expect_ok("memalign", mi_memalign(al, s), s, al, 0); expect_ok("aligned_alloc", mi_aligned_alloc(al, s), s, al, 0);
      if (al % sizeof(void*) == 0) { void* out = NULL; int e = mi_posix_memalign(&out, al, s); n_eval++; printf("E posix_memalign %zu %zu 0 -> %d\n", s, al, e);
        if (e != 0 || (out == NULL && s != 0)) FAIL("wellformed_request_failed", "posix_memalign align=%zu size=%zu e=%d", al, s, e); else { if (((uintptr_t)out % al) != 0) FAIL("misaligned", "posix_memalign"); mi_free(out); } }
    }
    expect_ok("valloc", mi_valloc(s), s, _mi_os_page_size(), 0); expect_ok("pvalloc", mi_pvalloc(s), s, _mi_os_page_size(), 0);
    expect_ok("realloc", mi_realloc(NULL, s), s, 0, 0); expect_ok("reallocn", mi_reallocn(NULL, s, 1), s, 0, 0);
  }
  // ---- realloc decisions: in place or moved, as a function of (usable, newsize)
  for (int i = 0; i < (thorough ? 6000 : 1500); i++) {
    size_t n0 = (i % 5 == 0) ? rnd() % 300000 : rnd() % 3000; uint8_t* p = (uint8_t*)mi_malloc(n0); size_t us = mi_usable_size(p);
    size_t n1 = (i % 3 == 0) ? us - (us ? rnd() % us : 0) : (i % 3 == 1 ? us + rnd() % (us + 10) : rnd() % (2 * us + 10)); if (i % 50 == 0) n1 = us / 2; if (i % 50 == 1) n1 = us / 2 + 1; if (i % 50 == 2) n1 = us; if (i % 50 == 3) n1 = us + 1; if (i % 50 == 4) n1 = 0;
    for (size_t k = 0; k < n0; k++) p[k] = (uint8_t)(k * 7 + i);
    size_t cnt0 = (i % 4 == 0) ? heap_blocks() : 0;
    uint8_t* q = (uint8_t*)mi_realloc(p, n1); n_eval++;
    printf("R realloc %zu %zu -> %d\n", us, n1, q != p);
    if (i % 4 == 0 && q != NULL && heap_blocks() != cnt0) FAIL("realloc_block_count", "n0=%zu n1=%zu moved=%d: live blocks %zu -> %zu (old block must be released exactly when moved)", n0, n1, q != p, cnt0, heap_blocks());
    if (q == NULL) { FAIL("wellformed_request_failed", "realloc %zu -> %zu", n0, n1); mi_free(p); continue; }
    if (mi_usable_size(q) < n1) FAIL("usable_lt_size", "realloc %zu -> %zu usable=%zu", n0, n1, mi_usable_size(q));
    size_t m = n0 < n1 ? n0 : n1; for (size_t k = 0; k < m; k++) if (q[k] != (uint8_t)(k * 7 + i)) { FAIL("realloc_content", "n0=%zu n1=%zu at %zu", n0, n1, k); break; }
    mi_free(q);
  }
  for (int i = 0; i < (thorough ? 3000 : 800); i++) {
    size_t al = (size_t)16 << (rnd() % 9); size_t n0 = 1 + rnd() % 5000; uint8_t* p = (uint8_t*)mi_malloc_aligned(n0, al); size_t us = mi_usable_size(p);
    size_t n1 = (i % 2) ? us - rnd() % us : us + rnd() % (us + 10); if (i % 40 == 0) n1 = us - us / 2; if (i % 40 == 1) n1 = us - us / 2 - 1;
    uint8_t* q = (uint8_t*)mi_realloc_aligned(p, n1, al); n_eval++;
    printf("R realloc_aligned %zu %zu %zu %zu -> %d\n", us, n1, al, (size_t)((uintptr_t)p % al), q != p);
    if (q == NULL) { FAIL("wellformed_request_failed", "realloc_aligned"); mi_free(p); continue; }
    if (((uintptr_t)q % al) != 0) FAIL("realloc_lost_alignment", "al=%zu", al);
    mi_free(q);
  }
  // ---- expand
  for (int i = 0; i < 500; i++) { size_t n0 = rnd() % 70000; void* p = mi_malloc(n0); size_t us = mi_usable_size(p); size_t n1 = (i % 2) ? rnd() % (us + 1) : us + 1 + rnd() % 1000; if (i % 10 == 0) n1 = us;
    void* q = mi_expand(p, n1); n_eval++; printf("R expand %zu %zu -> %d\n", us, n1, q == NULL);
    if (q != NULL && q != p) FAIL("expand_moved", "n0=%zu n1=%zu", n0, n1); if ((q != NULL) != (n1 <= us)) FAIL("expand_ok_iff", "usable=%zu n1=%zu q=%p", us, n1, q); mi_free(p); }
  check_unchanged("end", before);
  for (int i = 0; i < NLIVE; i++) mi_free(live[i].p);
  printf("STAT evaluations %zu\nSTAT failing_paths %zu\nSTAT succeeding_paths %zu\n", n_eval, n_fail_paths, n_ok_paths);
  printf("DONE fails %d\n", nfail);
  return 0;
}
