import MiVerif.Model.Heap
/- correspondence driver for C10: the ownership table answered by the real heap queries vs HeapM after every operation -/
namespace C10Val
open HeapM
def parseOwners (s : String) : List (Nat × Int) :=
  match s.splitOn "=[" with
  | [_, r] => let body := (r.dropEnd 1).toString
              if body.isEmpty then [] else (body.splitOn ",").filterMap fun kv => match kv.splitOn ":" with | [k, v] => some (k.toNat!, v.toInt!) | _ => none
  | _ => []
partial def loop (h : IO.FS.Stream) (s : St) (n d : Nat) : IO (Nat × Nat) := do
  let line ← h.getLine
  if line.isEmpty then return (n, d)
  let line := line.trimAscii.toString
  let ws := (line.splitOn " ").filter (· ≠ "")
  match ws with
  | "H" :: rest =>
    match rest.span (· ≠ "->") with
    | (op, _ :: [df, ow]) =>
      let s' := match op with
        | ["init"] => init
        | ["new", a] => step s (.new a.toNat!)
        | ["newnod", a] => step s (.newNoDestroy a.toNat!)
        | ["alloc", a, b] => step s (.alloc a.toNat! b.toNat!)
        | ["allocdefault", b] => step s (.allocDefault b.toNat!)
        | ["free", b] => step s (.free b.toNat!)
        | ["delete", a] => step s (.delete a.toNat!)
        | ["destroy", a] => step s (.destroy a.toNat!)
        | ["setdefault", a] => step s (.setDefault a.toNat!)
        | _ => s
      let dflt := match df.splitOn "=" with | [_, v] => v.toInt! | _ => -99
      let owners := parseOwners ow
      let model := (s'.owner.map fun p => (p.1, (p.2 : Int)))
      let srt (l : List (Nat × Int)) := (l.toArray.qsort (fun a b => a.1 > b.1)).toList
      let ok := dflt == (s'.dflt : Int) && srt owners == srt model
      if !ok && d < 15 then IO.println s!"DIFF {line.take 200} || model: default={s'.dflt} owners={(srt model).take 12}"
      loop h s' (n + 1) (if ok then d else d + 1)
    | _ => loop h s n d
  | _ => loop h s n d
def main (stdin : IO.FS.Stream) : IO UInt32 := do
  let (n, d) ← loop stdin init 0 0
  IO.println s!"c10val cases {n} diffs {d}"
  return (if d == 0 then 0 else 1)
end C10Val
