"""C03 — size and alignment contract, including interior (aligned) pointers
(T1: the over-allocation path regenerated with allocator oracles and effect log + theorem; interior pointer -> block start from C16;
wrapper decisions validated against the real entry points; shadow oracle on the real allocator for the whole contract)."""
import os
import vcommon as V
from checks import seqcommon, C05

TRUSTED = ['Lean 4 kernel', 'translator extract/translate.py (entry-point layer incl. mi_heap_malloc_zero_aligned_at_overalloc; _mi_page_ptr_unalign), validated against the compiled functions / real decisions every run',
           'the allocator underneath is an oracle in the theorem; page-start alignment, natural-alignment fast path, huge alignments (dedicated segment, extra slice entry), and the behaviour of free / usable_size / expand / realloc on interior pointers are checked by the shadow oracle on the real allocator, not proved',
           'mi_realloc_aligned on a block that is not aligned that way keeps the block\'s own offset (documented behaviour of mi_heap_realloc_zero_aligned): not counted as a violation']

def run(chk):
    chk.trusted = TRUSTED
    chk.assumptions = ['release configuration for the theorem; release and MI_DEBUG=2 for the oracle (debug builds reject aligned_at offsets that are not multiples of the word size: such offsets are not generated)']
    chk.extra['rule'] = ('obligations = theorems of Props/C03.lean over regenerated definitions; evaluations = wrapper decisions compared + API calls checked by the shadow oracle; distinct = oracle runs')
    chk.lean('MiVerif.Props.C03', groups=['Entry', 'Arith', 'Tables', 'Os'])
    thorough = chk.tier == 'thorough'
    with V.Scratch() as d:
        C05.entry_harness(chk, d)
        hs = seqcommon.build(chk, d)
        hd = seqcommon.build(chk, d, flags=('-DMI_DEBUG=2',), tag='dbg')
        n = 10 if thorough else 4
        ops = 40000 if thorough else 15000
        pre = ('c03_',)
        if hs:
            seqcommon.run(chk, hs, [(chk.seed * 40 + i, ops, (0, 4, 9, 12)[i % 4] if i else 0, 0) for i in range(n)], pre)
        if hd:
            seqcommon.run(chk, hd, [(chk.seed * 40 + 20 + i, ops // 2, 0, 0) for i in range(max(1, n // 3))], pre, tag='dbg')
