"""Shared machinery of the /verif checks (see DESIGN.md §2.2): regeneration of the generated Lean
definitions, lake build + axiom audit, harness compilation, evidence and verdict output."""
import os, sys, json, time, subprocess, hashlib, fcntl, re, shutil, tempfile, random

VERIF = os.path.dirname(os.path.dirname(os.path.abspath(__file__)))
REPO = os.environ.get('VERIF_REPO', '/repo')
LEAN = os.path.join(VERIF, 'lean')
EXTRACT = os.path.join(VERIF, 'extract')
HARNESS = os.path.join(VERIF, 'harness')
CACHE = os.path.join(VERIF, '.cache')
ALLOWED_AXIOMS = {'propext', 'Classical.choice', 'Quot.sound'}
FORBIDDEN = r'\bsorry\b|\badmit\b|^\s*axiom\s|native_decide|bv_decide|implemented_by|\bunsafe\s|maxHeartbeats\s+0|\bextern\b'

sys.path.insert(0, EXTRACT)


def seed():
    try:
        return int(os.environ.get('VERIF_SEED', '1'))
    except ValueError:
        return 1


class Lock:
    def __init__(self, name):
        os.makedirs(CACHE, exist_ok=True)
        self.path = os.path.join(CACHE, name + '.lock')

    def __enter__(self):
        self.f = open(self.path, 'w')
        fcntl.flock(self.f, fcntl.LOCK_EX)
        return self

    def __exit__(self, *a):
        fcntl.flock(self.f, fcntl.LOCK_UN)
        self.f.close()


def _group_rss_kb(pgid):
    total = 0
    for d in os.listdir('/proc'):
        if not d.isdigit():
            continue
        try:
            st = open('/proc/%s/stat' % d).read()
            f = st[st.rindex(')') + 2:].split()
            if int(f[2]) != pgid:          # pgrp
                continue
            total += int(f[21]) * 4        # rss pages -> KiB
        except (OSError, ValueError, IndexError):
            pass
    return total


def run(cmd, cwd=None, timeout=None, env=None, input=None, mem_limit_gb=None):
    """Run a command in its own process group; on timeout the whole group is killed (a `lake build` that
    is abandoned must not leave a `lean` child growing in the background).  With mem_limit_gb a watchdog
    kills the group when its resident memory exceeds the limit (RLIMIT_AS cannot be used: lean reserves
    address space far beyond what it touches)."""
    import signal, threading
    e = dict(os.environ)
    if env:
        e.update(env)
    p = subprocess.Popen(cmd, cwd=cwd, stdin=subprocess.PIPE if input is not None else subprocess.DEVNULL,
                         stdout=subprocess.PIPE, stderr=subprocess.PIPE, text=True, env=e, errors='replace',
                         start_new_session=True)
    over = []
    stop = threading.Event()
    if mem_limit_gb:
        def watch():
            while not stop.wait(2.0):
                if _group_rss_kb(p.pid) > mem_limit_gb * 1024 * 1024:
                    over.append(1)
                    try:
                        os.killpg(p.pid, signal.SIGKILL)
                    except OSError:
                        pass
                    return
        threading.Thread(target=watch, daemon=True).start()
    try:
        out, err = p.communicate(input=input, timeout=timeout)
        stop.set()
        if over:
            return 125, out, (err or '') + 'MEMORY-LIMIT'
        return p.returncode, out, err
    except subprocess.TimeoutExpired:
        stop.set()
        try:
            os.killpg(p.pid, signal.SIGKILL)
        except OSError:
            pass
        try:
            out, err = p.communicate(timeout=20)
        except Exception:
            out, err = '', ''
        return 124, out or '', (err or '') + 'TIMEOUT'


def repo_hash():
    h = hashlib.sha256()
    for root in ('src', 'include'):
        for d, dn, fn in sorted(os.walk(os.path.join(REPO, root))):
            dn.sort()
            for f in sorted(fn):
                p = os.path.join(d, f)
                h.update(p.encode())
                try:
                    h.update(open(p, 'rb').read())
                except OSError:
                    pass
    cm = os.path.join(REPO, 'cmake')
    for f in ['CMakeLists.txt'] + ([os.path.join('cmake', x) for x in sorted(os.listdir(cm))] if os.path.isdir(cm) else []):
        try:
            h.update(f.encode()); h.update(open(os.path.join(REPO, f), 'rb').read())
        except OSError:
            pass
    for f in sorted(os.listdir(EXTRACT)):
        if f.endswith('.py'):
            h.update(open(os.path.join(EXTRACT, f), 'rb').read())
    return h.hexdigest()[:24]


def write_if_changed(path, text):
    try:
        if open(path).read() == text:
            return False
    except OSError:
        pass
    os.makedirs(os.path.dirname(path), exist_ok=True)
    tmp = path + '.tmp%d' % os.getpid()
    open(tmp, 'w').write(text)
    os.replace(tmp, path)
    return True


def regenerate(groups=None, force=False):
    """Regenerate lean/MiVerif/Gen/*.lean from /repo's current working tree.
    Returns {group: None | error string}.  Results are cached per source hash."""
    import gen
    with Lock('gen'):
        return gen.generate(REPO, os.path.join(LEAN, 'MiVerif', 'Gen'), CACHE, groups=groups, force=force)


# A proof over regenerated code can diverge instead of failing when the code under it changed (the kernel
# unfolding `x + 2^64 - 1` in unary is the usual shape); the build is therefore bounded, and an exhausted
# bound is a proof that no longer checks, handled like any other (search for a failing input, then report).
LEAN_TIMEOUT = int(os.environ.get('VERIF_LEAN_TIMEOUT', '900'))
LEAN_MEM_GB = int(os.environ.get('VERIF_LEAN_MEM_GB', '24'))


def lake_build(targets, timeout=None):
    with Lock('lake'):
        t0 = time.time()
        rc, out, err = run(['lake', 'build'] + list(targets), cwd=LEAN, timeout=timeout or LEAN_TIMEOUT, mem_limit_gb=LEAN_MEM_GB)
        if rc == 124:
            err += '\nerror: lake build %s did not finish within %d s' % (' '.join(targets), timeout or LEAN_TIMEOUT)
        if rc == 125:
            err += '\nerror: lake build %s exceeded %d GB of resident memory' % (' '.join(targets), LEAN_MEM_GB)
        return rc == 0, (out + err), time.time() - t0


def theorems_in(module):
    """Names of the theorems declared in a Props module (property theorems live alone in these files)."""
    path = os.path.join(LEAN, *module.split('.')) + '.lean'
    txt = strip_comments(open(path).read())
    names = []
    ns = []
    for line in txt.splitlines():
        m = re.match(r'^\s*namespace\s+(\S+)', line)
        if m:
            ns.append(m.group(1)); continue
        m = re.match(r'^\s*end\s+(\S+)', line)
        if m and ns and ns[-1] == m.group(1):
            ns.pop(); continue
        m = re.match(r'^\s*(?:private\s+|protected\s+)?theorem\s+([^\s:({\[]+)', line)
        if m:
            names.append('.'.join(ns + [m.group(1)]))
    return names


def strip_comments(txt):
    out = []
    i = 0; depth = 0; n = len(txt)
    while i < n:
        if txt.startswith('/-', i):
            depth += 1; i += 2; continue
        if depth and txt.startswith('-/', i):
            depth -= 1; i += 2; continue
        if depth:
            if txt[i] == '\n':
                out.append('\n')
            i += 1; continue
        if txt.startswith('--', i):
            while i < n and txt[i] != '\n':
                i += 1
            continue
        out.append(txt[i]); i += 1
    return ''.join(out)


def import_closure(module):
    """all MiVerif.* / Driver.* modules a module depends on (itself included)"""
    seen = []
    todo = [module]
    while todo:
        m = todo.pop()
        if m in seen:
            continue
        p = os.path.join(LEAN, *m.split('.')) + '.lean'
        if not os.path.exists(p):
            continue
        seen.append(m)
        for line in open(p):
            mm = re.match(r'^\s*(?:public\s+)?import\s+((?:MiVerif|Driver)\.[\w.]+)', line)
            if mm:
                todo.append(mm.group(1))
    return seen


def grep_forbidden(module):
    hits = []
    for m in import_closure(module):
        p = os.path.join(LEAN, *m.split('.')) + '.lean'
        txt = strip_comments(open(p).read())
        for ln, line in enumerate(txt.splitlines(), 1):
            if re.search(FORBIDDEN, line):
                hits.append('%s:%d: %s' % (os.path.relpath(p, LEAN), ln, line.strip()[:120]))
    return hits


def axiom_audit(module, names):
    """#print axioms on every theorem; returns (ok_names, bad {name: axioms}, raw)."""
    if not names:
        return [], {}, ''
    src = 'import %s\n' % module + ''.join('#print axioms %s\n' % n for n in names)
    d = tempfile.mkdtemp(prefix='miverif-ax-')
    try:
        f = os.path.join(d, 'Ax.lean')
        open(f, 'w').write(src)
        rc, out, err = run(['lake', 'env', 'lean', f], cwd=LEAN, timeout=600)
    finally:
        shutil.rmtree(d, ignore_errors=True)
    txt = out + err
    ok = []; bad = {}
    flat = re.sub(r'\s+', ' ', txt)
    for nme in names:
        m = re.search(r"'%s' depends on axioms: \[([^\]]*)\]" % re.escape(nme), flat)
        if m:
            ax = [a.strip() for a in m.group(1).split(',') if a.strip()]
            extra = [a for a in ax if a not in ALLOWED_AXIOMS]
            if extra:
                bad[nme] = ax
            else:
                ok.append(nme)
        elif re.search(r"'%s' does not depend on any axioms" % re.escape(nme), flat):
            ok.append(nme)
        else:
            bad[nme] = ['<not found: %s>' % flat[-300:]]
    return ok, bad, txt


def leanchecker(module):
    rc, out, err = run(['lake', 'env', 'leanchecker', module], cwd=LEAN, timeout=3000)
    return rc == 0, out + err


def build_driver():
    ok, log, dt = lake_build(['midriver'])
    exe = os.path.join(LEAN, '.lake', 'build', 'bin', 'midriver')
    return ok and os.path.exists(exe), exe, log


def cc_harness(src, out, flags=(), cc='gcc', libs=('-lpthread',), opt='-O1', timeout=600):
    cmd = [cc, opt, '-g', '-w', '-I' + os.path.join(REPO, 'include'), '-I' + os.path.join(REPO, 'src'),
           '-I' + HARNESS, '-DVERIF_REPO="%s"' % REPO] + list(flags) + [src, '-o', out] + list(libs)
    rc, o, e = run(cmd, timeout=timeout)
    return rc == 0, o + e


RELEASE = ('-DNDEBUG', '-DMI_BUILD_RELEASE')


class Scratch:
    def __enter__(self):
        self.d = tempfile.mkdtemp(prefix='miverif-')
        return self.d

    def __exit__(self, *a):
        shutil.rmtree(self.d, ignore_errors=True)


def known_findings():
    known = []; fixed = []
    p = os.path.join(VERIF, 'known-findings.txt')
    if os.path.exists(p):
        for l in open(p):
            l = l.strip()
            if l.startswith('known:'):
                d = dict(kv.split('=', 1) for kv in l.split()[1:3] if '=' in kv)
                known.append((d.get('property'), d.get('key'), l))
            elif l.startswith('fixed:'):
                fixed.append(l)
    return known, fixed


class Check:
    """Collects obligations, correspondence counts, findings; writes evidence; prints the verdict."""

    def __init__(self, pid, tier):
        self.pid = pid
        self.tier = tier
        self.t0 = time.time()
        self.seed = seed()
        self.obligations = []      # theorem names expected
        self.discharged = []
        self.broken = []           # (what, detail)  proof / tie broken
        self.violations = []       # (key, description, replay dict)  concrete failing inputs
        self.cov = {'evaluations': 0, 'distinct_nontrivial': 0, 'samples': []}
        self.extra = {}
        self.trusted = []
        self.assumptions = []
        self.checker_cmd = ''
        self.notes = []
        self._distinct = set()

    def log(self, *a):
        print('[%s %6.1fs]' % (self.pid, time.time() - self.t0), *a, flush=True)

    # ---- Lean side
    def lean(self, module, groups=()):
        """Regenerate, build the property module, audit axioms."""
        self.checker_cmd = 'bin/gen && cd lean && lake build %s && lake env lean <#print axioms of every theorem in %s>' % (module, module)
        res = regenerate()
        for g in groups:
            if res.get(g):
                self.broken.append(('translator', 'group %s: %s' % (g, res[g])))
        names = theorems_in(module)
        self.obligations = names
        ok, log, dt = lake_build([module])
        self.log('lake build %s: %s (%.1fs)' % (module, 'ok' if ok else 'FAILED', dt))
        if not ok:
            errs = [l for l in log.splitlines() if 'error' in l][:12]
            self.broken.append(('lake build ' + module, '\n'.join(errs) or log[-1500:]))
            return False
        good, bad, raw = axiom_audit(module, names)
        self.discharged = good
        for n, ax in bad.items():
            self.broken.append(('axioms of ' + n, ', '.join(ax)))
        hits = grep_forbidden(module)
        for h in hits:
            self.broken.append(('forbidden construct', h))
        self.log('theorems %d, discharged %d, axiom audit %s' % (len(names), len(good), 'clean' if not bad and not hits else 'NOT clean'))
        if self.tier == 'thorough':
            okc, outc = leanchecker(module)
            self.extra['leanchecker'] = 'ok' if okc else outc[-400:]
            if not okc:
                self.broken.append(('leanchecker ' + module, outc[-800:]))
            self.checker_cmd += ' && lake env leanchecker ' + module
        return not bad and not hits

    # ---- coverage accounting
    def count(self, n=1):
        self.cov['evaluations'] += n

    def distinct(self, key):
        h = hash(key)
        if h not in self._distinct:
            self._distinct.add(h)
            self.cov['distinct_nontrivial'] = len(self._distinct)

    def sample(self, s, limit=6):
        if len(self.cov['samples']) < limit:
            self.cov['samples'].append(s)

    def violation(self, key, desc, replay):
        self.violations.append((key, desc, replay))

    def broken_tie(self, what, detail):
        self.broken.append((what, detail))

    # ---- finish
    def finish(self):
        known, fixed = known_findings()
        wall = time.time() - self.t0
        new = []
        lines = []
        for key, desc, replay in self.violations:
            hit = [k for k in known if k[0] == self.pid and k[1] == key]
            if hit:
                lines.append('KNOWN-FINDING: property=%s key=%s %s' % (self.pid, key, desc))
            else:
                new.append((key, desc, replay))
        rc = 0
        os.makedirs(os.path.join(VERIF, 'replays'), exist_ok=True)
        if new:
            key, desc, replay = new[0]
            path = os.path.join(VERIF, 'replays', '%s-%d-%s.json' % (self.pid, self.seed, re.sub(r'[^A-Za-z0-9_.-]', '_', key)[:60]))
            json.dump({'property': self.pid, 'kind': 'impl', 'key': key, 'description': desc, 'seed': self.seed, 'tier': self.tier,
                       'replay': replay, 'others': [(k, d) for k, d, _ in new[1:20]],
                       'broken': self.broken[:20]}, open(path, 'w'), indent=1, default=str)
            lines.append('VIOLATION property=%s replay=%s' % (self.pid, path))
            rc = 1
        elif self.broken and not all(self._excused(b, lines_known=lines) for b in self.broken):
            path = os.path.join(VERIF, 'replays', '%s-%d-broken-obligation.json' % (self.pid, self.seed))
            json.dump({'property': self.pid, 'kind': 'broken-obligation', 'seed': self.seed, 'tier': self.tier,
                       'no_longer_checks': [{'theorem_or_tie': w, 'detail': d} for w, d in self.broken[:40]],
                       'search': self.extra.get('search', 'model- and implementation-side search ran (see evidence) and found no failing input')},
                      open(path, 'w'), indent=1, default=str)
            lines.append('VIOLATION property=%s replay=%s no-failing-input-found' % (self.pid, path))
            rc = 1
        cov = dict(self.cov)
        cov.update({'obligations': len(self.obligations), 'discharged': len(self.discharged),
                    'checker_cmd': self.checker_cmd or 'n/a', 'trusted_base': self.trusted,
                    'theorems': self.obligations, 'rule': self.extra.pop('rule', ''),
                    'broken': [w for w, _ in self.broken]})
        cov.update(self.extra)
        if not cov['samples']:
            cov['samples'] = self.obligations[:5]
        ev = {'property_id': self.pid, 'tier': self.tier, 'seed': self.seed, 'level': 'proof', 'coverage': cov,
              'assumptions': self.assumptions, 'wall_s': round(wall, 1), 'violations': len(new) + (1 if rc and not new else 0),
              'known_findings': [l for l in lines if l.startswith('KNOWN')], 'notes': self.notes}
        os.makedirs(os.path.join(VERIF, 'evidence'), exist_ok=True)
        json.dump(ev, open(os.path.join(VERIF, 'evidence', self.pid + '.json'), 'w'), indent=1, default=str)
        for l in lines:
            print(l, flush=True)
        self.log('done rc=%d obligations=%d discharged=%d evaluations=%d distinct=%d wall=%.1fs' % (
            rc, len(self.obligations), len(self.discharged), cov['evaluations'], cov['distinct_nontrivial'], wall))
        return rc

    def _excused(self, b, lines_known):
        return False


def pmap(jobs, workers=14):
    """jobs: list of (cmd, input, timeout); returns list of (rc, out, err) in order"""
    from concurrent.futures import ThreadPoolExecutor
    def one(j):
        cmd, inp, to = j
        return run(cmd, input=inp, timeout=to)
    with ThreadPoolExecutor(max_workers=workers) as ex:
        return list(ex.map(one, jobs))


HOOKS = os.path.join(VERIF, 'hooks', 'verif_hooks.h')


def hooked_flags(extra=()):
    return ['-DMI_VERIF_HOOKS="%s"' % HOOKS, '-DVERIF_STATIC_C="%s/src/static.c"' % REPO] + list(extra)
