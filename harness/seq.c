// Sequential shadow-model oracle on the real allocator (white box only for a few queries).  One seeded history of public API
// calls; after every call the result is checked against a shadow map of live blocks.  FAIL keys are prefixed with the property:
//   c01_ overlap / contents / zero-size uniqueness      c03_ size & alignment contract, interior pointers
//   c05_ realloc contents / liveness                     c10_ heap delete / destroy / ownership queries / default heap
//   c12_ heap walk exactness                             c15_ arena-bound heaps and exclusive arenas
// usage: seq <seed> <ops> <option-row> <flags>     flags bit0: use an exclusive arena + arena-bound heaps + thread exit/adoption
#include VERIF_STATIC_C
#include <stdio.h>
#include <stdlib.h>
#include <pthread.h>
#include <errno.h>
static int nfail = 0;
#define FAIL(key, ...) do { if (nfail++ < 40) { printf("FAIL %s ", key); printf(__VA_ARGS__); printf("\n"); fflush(stdout); if (getenv("SEQ_TRACE")) fprintf(stderr, "T FAIL %s\n", key); } } while (0)
static uint64_t rs = 88172645463325252ULL;
static uint64_t rnd(void) { rs ^= rs << 13; rs ^= rs >> 7; rs ^= rs << 17; return rs; }
static long n_eval = 0, opcount[40];
static const char* lastop = "";

enum { NL = 2500, NH = 5 };
typedef struct { uint8_t* p; size_t usable; size_t req; uint32_t pat; int heap; size_t al, off; } blk_t;   // heap: -1 default/backing, 0..NH-1
static blk_t live[NL]; static int nlive = 0;
static mi_heap_t* heaps[NH]; static int heap_arena[NH];   // 1 if bound to the exclusive arena
static int heap_nodestroy[NH];                            // 1 if created without allow_destroy (mi_heap_destroy must then behave as mi_heap_delete)
static mi_heap_t* backing; static int default_is = -1;    // index of the heap set as default, -1 = backing
static mi_arena_id_t excl_arena = 0; static uint8_t* excl_start = NULL; static size_t excl_size = 0;
static int use_arena = 0;

static uint8_t patbyte(uint32_t pat, size_t i) { return (uint8_t)((pat * 2654435761u + (uint32_t)i * 40503u) >> 13); }
// every byte of the first MiB, then every 4099th byte, and the last byte
#define NEXTI(i) ((i) < (1u << 20) ? (i) + 1 : (i) + 4099)
static void fill(blk_t* b) { size_t n = b->usable; for (size_t i = 0; i < n; i = NEXTI(i)) b->p[i] = patbyte(b->pat, i); if (n) b->p[n - 1] = patbyte(b->pat, n - 1); }
static size_t check_prefix(blk_t* b, const uint8_t* p, size_t n) {   // first differing index or (size_t)-1
  for (size_t i = 0; i < n; i = NEXTI(i)) if (p[i] != patbyte(b->pat, i)) return i; return (size_t)-1;
}
static void check_block(blk_t* b, const char* when) {
  size_t bad = check_prefix(b, b->p, b->usable);
  if (bad == (size_t)-1 && b->usable > 0 && b->p[b->usable - 1] != patbyte(b->pat, b->usable - 1)) bad = b->usable - 1;
  if (bad != (size_t)-1) FAIL("c01_content_changed", "%s: block %p (requested %zu, usable %zu, align %zu) byte %zu changed (after op %s)", when, (void*)b->p, b->req, b->usable, b->al, bad, lastop);
}
static int in_excl(const void* p) { return excl_start && (uint8_t*)p >= excl_start && (uint8_t*)p < excl_start + excl_size; }
static mi_heap_t* heap_of(int hi) { return hi < 0 ? backing : heaps[hi]; }

// a new block came back from the allocator
static void adopt(void* vp, size_t req, int hi, size_t al, size_t off, int zeroed, const char* fn) {
  n_eval++;
  if (getenv("SEQ_TRACE")) fprintf(stderr, "T %s(%zu,%zu,%zu) heap %d -> %p\n", fn, req, al, off, hi, vp);
  uint8_t* p = (uint8_t*)vp;
  if (p == NULL) { if (req < ((size_t)96 << 20) && !(hi >= 0 && heap_arena[hi])) FAIL("c01_alloc_failed", "%s(%zu, align %zu, off %zu) returned NULL", fn, req, al, off); return; }
  size_t us = mi_usable_size(p);
  if (us < req) FAIL("c03_usable_lt_size", "%s(%zu): usable %zu", fn, req, us);
  { // the usable size reported for a (possibly interior) pointer must end inside the block that contains it (block bounds recomputed from the page geometry)
    mi_page_t* pg = _mi_ptr_page(p); size_t bs = mi_page_block_size(pg); uint8_t* ps = mi_page_start(pg);
    if (bs > 0 && p >= ps) { uint8_t* bstart = ps + ((size_t)(p - ps) / bs) * bs; if (p + us > bstart + bs) FAIL("c03_usable_beyond_block", "%s(%zu, align %zu, off %zu) = %p: usable size %zu ends %zu bytes past the end of its block [%p,+%zu)", fn, req, al, off, (void*)p, us, (size_t)((p + us) - (bstart + bs)), (void*)bstart, bs); } }
  if (al == 0) { size_t want = (req >= 16 ? 16 : 8); if (((uintptr_t)p % want) != 0) FAIL("c03_min_alignment", "%s(%zu) = %p not %zu-aligned", fn, req, (void*)p, want); }
  else if ((((uintptr_t)p + off) % al) != 0) FAIL("c03_misaligned", "%s(%zu, align %zu, off %zu) = %p", fn, req, al, off, (void*)p);
  for (int i = 0; i < nlive; i++) {
    if (p < live[i].p + live[i].usable && live[i].p < p + us) { FAIL("c01_overlap", "%s(%zu) = [%p,+%zu) overlaps live block [%p,+%zu)", fn, req, (void*)p, us, (void*)live[i].p, live[i].usable); break; }
    if (p == live[i].p) { FAIL("c01_same_pointer", "%s(%zu) returned a live pointer %p", fn, req, (void*)p); break; }
  }
  if (zeroed) for (size_t i = 0; i < req; i += (req > 65536 ? 61 : 1)) if (p[i] != 0) { FAIL("c04_not_zero", "%s(%zu) byte %zu", fn, req, i); break; }
  // arena binding (C15)
  int bound = (hi >= 0 && heap_arena[hi]);
  if (excl_start) {
    if (bound && !in_excl(p)) FAIL("c15_outside_arena", "%s(%zu) from the arena-bound heap %d returned %p outside its arena [%p,+%zu)", fn, req, hi, (void*)p, (void*)excl_start, excl_size);
    if (!bound && in_excl(p)) FAIL("c15_exclusive_leaked", "%s(%zu) from heap %d (not bound to the exclusive arena) returned %p inside it (after op %s)", fn, req, hi, (void*)p, lastop);
  }
  if (nlive >= NL) { mi_free(p); return; }
  blk_t* b = &live[nlive++]; b->p = p; b->usable = us; b->req = req; b->pat = (uint32_t)rnd() | 1; b->heap = hi; b->al = al; b->off = off;
  fill(b);
}
static size_t pick_size(void) {
  switch (rnd() % 16) {
    case 0: return 0;
    case 1: return (size_t)(rnd() % 17);
    case 2: case 3: case 4: case 5: case 6: return 1 + (size_t)(rnd() % 1024);
    case 7: case 8: case 9: return 1024 + (size_t)(rnd() % 66000);
    case 10: case 11: return 65536 + (size_t)(rnd() % 600000);
    case 12: return (size_t)(1 << 20) + (size_t)(rnd() % (15 << 20));
    case 13: { static const size_t E[] = { 8, 16, 32, 64, 128, 1024, 8192, 65536, 131072, 524288, 16777216, 33554432 }; return E[rnd() % 12] + (size_t)(rnd() % 17) - 8; }
    case 14: return (rnd() % 8 == 0) ? (size_t)(33 << 20) + (size_t)(rnd() % (40 << 20)) : 100 + (size_t)(rnd() % 4000);   // multi-segment huge
    default: return 1 + (size_t)(rnd() % 200);
  }
}
static size_t pick_align(void) { unsigned k = (unsigned)(rnd() % 20); if (k < 12) return (size_t)1 << (rnd() % 13); if (k < 17) return (size_t)1 << (12 + rnd() % 11); if (k < 19) return (size_t)1 << (23 + rnd() % 3); return (size_t)1 << (26 + rnd() % 2); }
static int pick_heap(void) { int c[NH + 1], n = 0; c[n++] = -1; for (int i = 0; i < NH; i++) if (heaps[i]) c[n++] = i; return c[rnd() % n]; }

static void op_alloc(void) {
  size_t n = pick_size(); int hi = pick_heap(); mi_heap_t* h = heap_of(hi);
  int bound = (hi >= 0 && heap_arena[hi]);
  if (bound && n > (8u << 20)) n = 1 + n % 100000;
  // which heap serves the entry points without a heap argument
  int dh = default_is;
  unsigned v = (unsigned)(rnd() % 24);
  size_t a = pick_align(), o = (rnd() % 3 == 0) ? ((size_t)(rnd() % 512)) * 8 : 0;
#ifdef NDEBUG
  if (o && rnd() % 2) o += (size_t)(rnd() % 8);     // offsets that are not multiples of the word size (debug builds reject the resulting pointers)
#endif
  if (a > MI_BLOCK_ALIGNMENT_MAX) o = 0;
  if (o > n) o = 0;
  if (a >= ((size_t)1 << 23) && n > (40u << 20)) n = 1 + n % 100000;
  void* p = NULL;
  switch (v) {
    case 0: lastop = "mi_malloc"; adopt(mi_malloc(n), n, dh, 0, 0, 0, lastop); break;
    case 1: lastop = "mi_zalloc"; adopt(mi_zalloc(n), n, dh, 0, 0, 1, lastop); break;
    case 2: { size_t c = 1 + (size_t)(rnd() % 5); lastop = "mi_calloc"; adopt(mi_calloc(c, n / c + 1), (n / c + 1) * c, dh, 0, 0, 1, lastop); break; }
    case 3: { size_t c = 1 + (size_t)(rnd() % 5); lastop = "mi_mallocn"; adopt(mi_mallocn(c, n / c + 1), (n / c + 1) * c, dh, 0, 0, 0, lastop); break; }
    case 4: lastop = "mi_malloc_small"; if (n > MI_SMALL_SIZE_MAX) n %= MI_SMALL_SIZE_MAX; adopt(mi_malloc_small(n), n, dh, 0, 0, 0, lastop); break;
    case 5: lastop = "mi_malloc_aligned"; adopt(mi_malloc_aligned(n, a), n, dh, a, 0, 0, lastop); break;
    case 6: lastop = "mi_malloc_aligned_at"; adopt(mi_malloc_aligned_at(n, a, o), n, dh, a, o, 0, lastop); break;
    case 7: lastop = "mi_zalloc_aligned_at"; adopt(mi_zalloc_aligned_at(n, a, o), n, dh, a, o, 1, lastop); break;
    case 8: { lastop = "mi_posix_memalign"; if (a < sizeof(void*)) a = sizeof(void*); int e = mi_posix_memalign(&p, a, n); if (e != 0 && n < (64u << 20)) FAIL("c01_alloc_failed", "posix_memalign(%zu,%zu) = %d", a, n, e); if (e == 0) adopt(p, n, dh, a, 0, 0, lastop); break; }
    case 9: lastop = "mi_memalign"; adopt(mi_memalign(a, n), n, dh, a, 0, 0, lastop); break;
    case 10: lastop = "mi_valloc"; adopt(mi_valloc(n), n, dh, _mi_os_page_size(), 0, 0, lastop); break;
    case 11: lastop = "mi_aligned_alloc"; adopt(mi_aligned_alloc(a, n), n, dh, a, 0, 0, lastop); break;
    case 12: { lastop = "mi_strdup"; size_t len = n % 5000; char* s = (char*)malloc(len + 1); memset(s, 'x', len); s[len] = 0; char* d = mi_strdup(s); if (d && (strlen(d) != len)) FAIL("c01_strdup", "len %zu", len); free(s); adopt(d, len + 1, dh, 0, 0, 0, lastop); break; }
    case 13: lastop = "mi_heap_malloc"; adopt(mi_heap_malloc(h, n), n, hi, 0, 0, 0, lastop); break;
    case 14: lastop = "mi_heap_zalloc"; adopt(mi_heap_zalloc(h, n), n, hi, 0, 0, 1, lastop); break;
    case 15: lastop = "mi_heap_calloc"; adopt(mi_heap_calloc(h, 1, n), n, hi, 0, 0, 1, lastop); break;
    case 16: lastop = "mi_heap_malloc_aligned"; adopt(mi_heap_malloc_aligned(h, n, a), n, hi, a, 0, 0, lastop); break;
    case 17: lastop = "mi_heap_malloc_aligned_at"; adopt(mi_heap_malloc_aligned_at(h, n, a, o), n, hi, a, o, 0, lastop); break;
    case 18: lastop = "mi_heap_zalloc_aligned"; adopt(mi_heap_zalloc_aligned(h, n, a), n, hi, a, 0, 1, lastop); break;
    case 19: lastop = "mi_heap_malloc_small"; if (n > MI_SMALL_SIZE_MAX) n %= MI_SMALL_SIZE_MAX; adopt(mi_heap_malloc_small(h, n), n, hi, 0, 0, 0, lastop); break;
    case 20: lastop = "mi_realloc(NULL)"; adopt(mi_realloc(NULL, n), n, dh, 0, 0, 0, lastop); break;
    case 21: lastop = "mi_heap_realloc(NULL)"; adopt(mi_heap_realloc(h, NULL, n), n, hi, 0, 0, 0, lastop); break;
    case 22: lastop = "mi_pvalloc"; adopt(mi_pvalloc(n), n, dh, _mi_os_page_size(), 0, 0, lastop); break;
    default: lastop = "mi_heap_mallocn"; adopt(mi_heap_mallocn(h, 2, n / 2 + 1), (n / 2 + 1) * 2, hi, 0, 0, 0, lastop); break;
  }
  opcount[v]++;
}
static void drop(int k) { live[k] = live[--nlive]; }
static void op_free(void) {
  if (nlive == 0) return; int k = (int)(rnd() % nlive); blk_t b = live[k];
  check_block(&live[k], "before free");
  if (mi_usable_size(b.p) != b.usable) FAIL("c03_usable_changed", "block %p usable was %zu now %zu", (void*)b.p, b.usable, mi_usable_size(b.p));
  unsigned v = (unsigned)(rnd() % 5);
  if (v == 0) { lastop = "mi_free_size"; mi_free_size(b.p, b.req); } else if (v == 1 && b.al && b.off == 0 && ((uintptr_t)b.p % b.al) == 0) { lastop = "mi_free_aligned"; mi_free_aligned(b.p, b.al); }
  else if (v == 2 && b.al <= MI_BLOCK_ALIGNMENT_MAX) { lastop = "mi_cfree"; mi_cfree(b.p); }   /* mi_cfree only frees what mi_is_in_heap_region recognises; over-aligned OS blocks above the segment-map range are not (DESIGN.md, observations) */ else { lastop = "mi_free"; mi_free(b.p); }
  if (getenv("SEQ_TRACE")) fprintf(stderr, "T %s %p\n", lastop, (void*)b.p);
  drop(k); n_eval++;
}
static void op_realloc(void) {
  if (nlive == 0) return; int k = (int)(rnd() % nlive); blk_t* b = &live[k];
  check_block(b, "before realloc");
  size_t nn; unsigned w = (unsigned)(rnd() % 6);
  if (w == 0) nn = b->req / 2; else if (w == 1) nn = b->usable; else if (w == 2) nn = b->usable + 1 + (size_t)(rnd() % 100); else if (w == 3) nn = pick_size(); else if (w == 4) nn = b->req + (size_t)(rnd() % 64); else nn = b->req * 2 + 1;
  if (nn > ((size_t)80 << 20)) nn = 1000;
  int bound = (b->heap >= 0 && heap_arena[b->heap]); if (bound && nn > (8u << 20)) nn = 5000;
  unsigned v = (unsigned)(rnd() % 9); uint8_t* q = NULL; size_t al = b->al, off = b->off; int zero = 0;
  mi_heap_t* h = heap_of(b->heap);
  uint8_t* oldp = b->p; size_t oldus = b->usable;
  // snapshot of the old contents' generator: contents are regenerable from (pat, i)
  if (v == 8) { // expand
    lastop = "mi_expand"; void* r = mi_expand(b->p, nn); n_eval++;
    if (r != NULL && r != b->p) FAIL("c05_expand_moved", "%p -> %p", (void*)b->p, r);
#if MI_PADDING
    const int padded = 1;     // with padding mi_expand always fails (documented in alloc.c)
#else
    const int padded = 0;
#endif
    if (!padded && (r != NULL) != (nn <= b->usable)) FAIL("c05_expand_ok_iff", "expand(%p, %zu) usable %zu -> %p", (void*)b->p, nn, b->usable, r);
    check_block(b, "after expand"); return;
  }
  switch (v) {
    case 0: lastop = "mi_realloc"; q = (uint8_t*)mi_realloc(b->p, nn); al = 0; break;
    case 1: lastop = "mi_reallocn"; q = (uint8_t*)mi_reallocn(b->p, 1, nn); al = 0; break;
    case 2: lastop = "mi_reallocf"; q = (uint8_t*)mi_reallocf(b->p, nn); al = 0; break;
    case 3: lastop = "mi_heap_realloc"; q = (uint8_t*)mi_heap_realloc(h, b->p, nn); al = 0; break;
    case 4: lastop = "mi_realloc_aligned"; if (!al) { al = 16; } off = 0; break;
    case 5: lastop = "mi_realloc_aligned_at"; if (!al) { al = 32; off = 0; } break;
    case 6: lastop = "mi_rezalloc"; q = (uint8_t*)mi_rezalloc(b->p, nn); al = 0; zero = 0; break;
    default: lastop = "mi_heap_realloc_aligned"; if (!al) al = 64; off = 0; break;
  }
  // "re-allocating with the same alignment keeps the alignment": only expected when the block is aligned that way now
  int was_aligned = (al > 0) && ((((uintptr_t)b->p + off) % al) == 0);
  if (v == 4) q = (uint8_t*)mi_realloc_aligned(b->p, nn, al); else if (v == 5) q = (uint8_t*)mi_realloc_aligned_at(b->p, nn, al, off); else if (v == 7) q = (uint8_t*)mi_heap_realloc_aligned(h, b->p, nn, al);
  n_eval++; opcount[24 + (v % 8)]++;
  if (getenv("SEQ_TRACE")) fprintf(stderr, "T %s %p %zu -> %p\n", lastop, (void*)oldp, nn, (void*)q);
  if (q == NULL) { FAIL("c05_realloc_failed", "%s(%p, %zu) returned NULL", lastop, (void*)oldp, nn); check_block(b, "after failed realloc"); return; }
  size_t us = mi_usable_size(q);
  if (us < nn) FAIL("c03_usable_lt_size", "%s(%zu): usable %zu", lastop, nn, us);
  size_t keep = (b->req < nn ? b->req : nn);
  size_t bad = check_prefix(b, q, keep);
  if (bad != (size_t)-1) FAIL("c05_realloc_content", "%s(%p req %zu usable %zu -> %zu): byte %zu of the first %zu differs (result %p, %s)", lastop, (void*)oldp, b->req, oldus, nn, bad, keep, (void*)q, q == oldp ? "in place" : "moved");
  if (!was_aligned && (v == 4 || v == 5 || v == 7)) { al = 0; off = 0; }
  if (al > 8 && (((uintptr_t)q + off) % al) != 0 && (v == 4 || v == 5 || v == 7)) FAIL("c03_realloc_lost_alignment", "%s(%zu, align %zu, off %zu) = %p", lastop, nn, al, off, (void*)q);
  if (al == 0 && q != oldp && !(v == 4 || v == 5 || v == 7)) { size_t want = (nn >= 16 ? 16 : 8); if (((uintptr_t)q % want) != 0) FAIL("c03_min_alignment", "%s(%zu) = %p", lastop, nn, (void*)q); }
  for (int i = 0; i < nlive; i++) if (i != k && q < live[i].p + live[i].usable && live[i].p < q + us) { FAIL("c01_overlap", "%s(%zu) = [%p,+%zu) overlaps live block [%p,+%zu)", lastop, nn, (void*)q, us, (void*)live[i].p, live[i].usable); break; }
  // which heap holds the result: in place -> unchanged; moved -> the heap argument (heap variants) or the default heap
  int newheap = (q == oldp) ? b->heap : ((v == 3 || v == 7) ? b->heap : default_is);
  if (q != oldp && b->heap == -2 && (v == 3 || v == 7)) newheap = -1;   // heap variants were given the backing heap for adopted blocks
  if (excl_start && newheap != -2) {
    int bnd = (newheap >= 0 && heap_arena[newheap]);
    if (bnd && !in_excl(q)) FAIL("c15_outside_arena", "%s gave a block of the arena-bound heap %d memory outside the arena (%p)", lastop, newheap, (void*)q);
    if (!bnd && in_excl(q)) FAIL("c15_exclusive_leaked", "%s returned %p inside the exclusive arena for heap %d which is not bound to it", lastop, (void*)q, newheap);
  }
  b->heap = newheap;
  if (q != oldp) { b->al = (al > 8 ? al : 0); b->off = off; }    // in place: the pointer keeps the alignment it had
  b->p = q; b->usable = us; b->req = nn; b->pat = (uint32_t)rnd() | 1; fill(b);
}
// ---- heap walking (C12) and ownership (C10)
typedef struct { int hi; long blocks; long bad; long area_used_sum; long area_blocks; } visit_t;
static int find_live(void* p) { for (int i = 0; i < nlive; i++) if (live[i].p == (uint8_t*)p) return i; return -1; }
static int find_enclosing(void* blk, size_t bs) { for (int i = 0; i < nlive; i++) if ((uint8_t*)blk <= live[i].p && live[i].p + live[i].usable <= (uint8_t*)blk + bs) return i; return -1; }
static char seen[NL];
static bool visitor(const mi_heap_t* heap, const mi_heap_area_t* area, void* block, size_t bsize, void* arg) {
  visit_t* v = (visit_t*)arg; (void)heap;
  if (block == NULL) { v->area_used_sum += (long)area->used; return true; }
  v->blocks++;
  int k = find_enclosing(block, bsize);
  if (k < 0) {
    // the descriptors of the thread's other heaps are blocks of the backing heap
    for (int i = 0; i < NH; i++) if (heaps[i] && (uint8_t*)block <= (uint8_t*)heaps[i] && (uint8_t*)heaps[i] < (uint8_t*)block + bsize) { v->area_blocks++; return true; }
    if (mi_option_get(mi_option_target_segments_per_thread) > 0) { FAIL("c10_heap_changed_by_forced_abandon", "heap %d: the walk reports block [%p,+%zu) which the program does not hold (pages force-abandoned and re-adopted)", v->hi, block, bsize); return true; }
    v->bad++; { int near = -1; for (int i = 0; i < nlive; i++) if (live[i].p >= (uint8_t*)block && (near < 0 || live[i].p < live[near].p)) near = i;
      FAIL("c12_visited_not_live", "heap %d: visited block [%p,+%zu) encloses no live block (area blocks_size %zu full %zu; next live block above: %p usable %zu req %zu align %zu heap %d)", v->hi, block, bsize, area->block_size, area->full_block_size, near >= 0 ? (void*)live[near].p : NULL, near >= 0 ? live[near].usable : 0, near >= 0 ? live[near].req : 0, near >= 0 ? live[near].al : 0, near >= 0 ? live[near].heap : 0); } return true;
  }
  if (seen[k]) { FAIL("c12_visited_twice", "block %p", (void*)live[k].p); }
  seen[k] = 1; v->area_blocks++;
  if (live[k].heap != v->hi && live[k].heap != -2) FAIL(mi_option_get(mi_option_target_segments_per_thread) > 0 ? "c10_heap_changed_by_forced_abandon" : "c10_wrong_heap_in_walk", "block %p of heap %d reported while walking heap %d (after %s)", (void*)live[k].p, live[k].heap, v->hi, lastop);
  return true;
}
static void op_visit(void) {
  lastop = "mi_heap_visit_blocks"; memset(seen, 0, sizeof seen);
  for (int hi = -1; hi < NH; hi++) {
    mi_heap_t* h = heap_of(hi); if (!h) continue;
    visit_t v = { hi, 0, 0, 0, 0 };
    mi_heap_visit_blocks(h, true, &visitor, &v); n_eval++;
    if (v.area_used_sum != v.area_blocks && mi_option_get(mi_option_target_segments_per_thread) == 0) FAIL("c12_area_used", "heap %d: areas report %ld used blocks, %ld blocks were visited", hi, v.area_used_sum, v.area_blocks);
    long expect = 0; for (int i = 0; i < nlive; i++) if (live[i].heap == hi) expect++;
    long got = 0; for (int i = 0; i < nlive; i++) if (live[i].heap == hi && seen[i]) got++;
    if (got != expect && mi_option_get(mi_option_target_segments_per_thread) > 0) { FAIL("c10_heap_changed_by_forced_abandon", "heap %d: %ld of %ld live blocks were reported by the walk (pages force-abandoned)", hi, got, expect); }
    else if (got != expect) { int ex = -1; for (int i = 0; i < nlive; i++) if (live[i].heap == hi && !seen[i]) { ex = i; break; }
      FAIL("c12_live_not_visited", "heap %d: %ld of %ld live blocks were reported (e.g. %p size %zu missing)", hi, got, expect, ex >= 0 ? (void*)live[ex].p : NULL, ex >= 0 ? live[ex].req : 0); }
  }
  // stop on false
  visit_t v2 = { -1, 0, 0, 0, 0 }; (void)v2;
}
static long stopcount; static bool stopper(const mi_heap_t* h, const mi_heap_area_t* a, void* b, size_t s, void* arg) { (void)h; (void)a; (void)s; (void)arg; if (b) { stopcount++; return false; } return true; }
static void op_visit_stop(void) { stopcount = 0; lastop = "mi_heap_visit_blocks(stop)"; bool r = mi_heap_visit_blocks(backing, true, &stopper, NULL); n_eval++; if (stopcount > 1 || (stopcount == 1 && r)) FAIL("c12_visit_not_stopped", "visitor returned false, yet %ld blocks were visited (result %d)", stopcount, (int)r); }
static void op_owner(void) {
  if (nlive == 0) return; int k = (int)(rnd() % nlive); blk_t* b = &live[k]; lastop = "mi_heap_contains_block";
  for (int hi = -1; hi < NH; hi++) { mi_heap_t* h = heap_of(hi); if (!h) continue; n_eval++;
    bool c = mi_heap_contains_block(h, b->p), o = mi_heap_check_owned(h, b->p);
    if (b->heap == -2) continue;      // left behind by an exited thread: owned by whichever heap adopted it
    if (mi_option_get(mi_option_target_segments_per_thread) > 0) continue;   // see known finding: forced abandonment migrates pages to the reclaiming heap
    if (c != (hi == b->heap)) FAIL("c10_contains_block", "block %p lives in heap %d; mi_heap_contains_block(heap %d) = %d", (void*)b->p, b->heap, hi, (int)c);
    if (((uintptr_t)b->p & (sizeof(void*) - 1)) != 0) continue;    // mi_heap_check_owned only recognises word-aligned pointers (documented)
    if (o != (hi == b->heap)) FAIL("c10_check_owned", "block %p lives in heap %d; mi_heap_check_owned(heap %d) = %d", (void*)b->p, b->heap, hi, (int)o); }
  if (!mi_check_owned(b->p) && ((uintptr_t)b->p & (sizeof(void*) - 1)) == 0) { if (b->heap == default_is) FAIL("c10_check_owned_default", "mi_check_owned(%p) false", (void*)b->p); }
  int x; if (mi_heap_check_owned(backing, &x)) FAIL("c10_check_owned", "stack address owned");
}
static void op_heap(void) {
  unsigned v = (unsigned)(rnd() % 10); int hi = (int)(rnd() % NH);
  if (v < 4) { if (!heaps[hi]) { int bound = (use_arena && hi < 2); lastop = "mi_heap_new"; int nod = (!bound && rnd() % 4 == 0);
      heaps[hi] = bound ? mi_heap_new_in_arena(excl_arena) : (nod ? mi_heap_new_ex(0, false, _mi_arena_id_none()) : mi_heap_new()); heap_arena[hi] = bound; heap_nodestroy[hi] = (bound || nod); n_eval++; } }
  else if (v < 6) { if (heaps[hi]) { lastop = "mi_heap_delete"; int bound = heap_arena[hi];
      mi_heap_delete(heaps[hi]); n_eval++;
      // blocks migrate to the backing heap -- unless the heap is bound to another arena: then its pages are abandoned (no heap owns them until reclaimed)
      for (int i = 0; i < nlive; i++) if (live[i].heap == hi) live[i].heap = bound ? -2 : -1;
      if (default_is == hi) default_is = -1;
      heaps[hi] = NULL; heap_arena[hi] = 0; heap_nodestroy[hi] = 0; for (int i = 0; i < nlive; i += 7) check_block(&live[i], "after heap_delete"); } }
  else if (v < 7) { if (heaps[hi] && default_is != hi) { lastop = "mi_heap_destroy"; int bound = heap_arena[hi]; int nod = heap_nodestroy[hi];
#ifdef NDEBUG
      mi_heap_destroy(heaps[hi]);
#else
      if (nod) mi_heap_delete(heaps[hi]); else mi_heap_destroy(heaps[hi]);    // debug builds assert heap->no_reclaim in mi_heap_destroy (treated as API misuse there)
#endif
      n_eval++;
      // (a heap that was not created with allow_destroy - e.g. by mi_heap_new_in_arena - may hold pages reclaimed from other threads: the call is
      //  documented to fall back to mi_heap_delete, so its blocks stay valid)
      for (int i = nlive - 1; i >= 0; i--) if (live[i].heap == hi) { if (bound) live[i].heap = -2; else if (nod) live[i].heap = -1; else drop(i); }
      heaps[hi] = NULL; heap_arena[hi] = 0; heap_nodestroy[hi] = 0; for (int i = 0; i < nlive; i += 5) check_block(&live[i], "after heap_destroy"); } }
  else if (v < 8) { if (heaps[hi] && !heap_arena[hi]) { lastop = "mi_heap_set_default"; mi_heap_set_default(heaps[hi]); default_is = hi; n_eval++; } else { mi_heap_set_default(backing); default_is = -1; } }
  else if (v < 9) { lastop = "mi_heap_collect"; mi_heap_collect(heap_of(pick_heap()), rnd() % 2); n_eval++; }
  else { lastop = "mi_collect"; mi_collect(rnd() % 2); n_eval++; }
  if (getenv("SEQ_TRACE")) fprintf(stderr, "T heapop v=%u %s idx %d\n", v, lastop, hi);
  if (mi_heap_get_default() != heap_of(default_is)) FAIL("c10_default_heap", "default heap is %p, expected heap %d (after %s)", (void*)mi_heap_get_default(), default_is, lastop);
  if (mi_heap_get_backing() != backing) FAIL("c10_backing_heap", "backing heap changed");
}
// a thread that allocates from an arena-bound heap (and from its default heap) and exits with live blocks (C15 / adoption)
typedef struct { void* ptr[40]; size_t n[40]; int cnt; int bound; } texit_t;
static void* texit_body(void* arg) { texit_t* t = (texit_t*)arg; mi_heap_t* h = t->bound ? mi_heap_new_in_arena(excl_arena) : mi_heap_get_default(); t->cnt = 0;
  for (int i = 0; i < 40; i++) { size_t n = 16 + (size_t)((i * 7919) % 3000); void* p = mi_heap_malloc(h, n); if (p) { memset(p, 0x33, n); t->ptr[t->cnt] = p; t->n[t->cnt] = n; t->cnt++; } }
  return NULL; }
static void op_thread_exit(void) {
  static texit_t t; t.bound = use_arena && (rnd() % 2); lastop = t.bound ? "thread exit (arena-bound heap)" : "thread exit";
  pthread_t th; pthread_create(&th, NULL, &texit_body, &t); pthread_join(th, NULL); n_eval++;
  for (int i = 0; i < t.cnt; i++) { if (t.bound && !in_excl(t.ptr[i])) FAIL("c15_outside_arena", "thread's arena-bound heap returned %p", t.ptr[i]);
    if (nlive < NL) { blk_t* b = &live[nlive++]; b->p = (uint8_t*)t.ptr[i]; b->usable = mi_usable_size(t.ptr[i]); b->req = t.n[i]; b->pat = (uint32_t)rnd() | 1; b->heap = -2; b->al = 0; b->off = 0; fill(b); } else mi_free(t.ptr[i]); }
}

#include <sys/personality.h>
#include <unistd.h>
int main(int argc, char** argv) {
  // identical addresses in every run of the same seed (replays): switch address-space randomisation off and re-execute
  if (getenv("SEQ_NOASLR") == NULL) { setenv("SEQ_NOASLR", "1", 1); if (personality(ADDR_NO_RANDOMIZE) != -1) execv("/proc/self/exe", argv); }
  uint64_t seed = argc > 1 ? strtoull(argv[1], 0, 10) : 1; long ops = argc > 2 ? atol(argv[2]) : 20000; int row = argc > 3 ? atoi(argv[3]) : 0; int flags = argc > 4 ? atoi(argv[4]) : 0;
  rs ^= seed * 0x9E3779B97F4A7C15ULL; if (!rs) rs = 1; for (int i = 0; i < 8; i++) rnd();
  use_arena = flags & 1;
  // option rows (pairwise covering of the options that change commit / purge / arena behaviour)
  static const long ROWS[12][9] = {
    // purge_delay decommits eager_commit eager_delay arena_eager disallow_arena arena_reserveKiB reclaim_on_free target_segments
    { 10, 1, 1, 1, 2, 0, 1048576, 0, 0 }, { 0, 1, 1, 0, 2, 0, 1048576, 1, 0 }, { 0, 0, 0, 1, 0, 0, 65536, 0, 2 }, { -1, 1, 0, 0, 1, 0, 1048576, 1, 2 },
    { 1, 1, 0, 1, 0, 1, 65536, 0, 0 }, { 10, 0, 1, 0, 1, 1, 1048576, 1, 2 }, { 1, 0, 1, 1, 2, 0, 65536, 1, 2 }, { 0, 1, 0, 0, 0, 1, 1048576, 0, 2 },
    { -1, 0, 1, 1, 0, 1, 65536, 1, 0 }, { 10, 1, 0, 0, 2, 0, 65536, 0, 2 }, { 1, 1, 1, 0, 1, 0, 1048576, 0, 0 }, { 0, 0, 1, 1, 1, 0, 1048576, 0, 0 } };
  if (row > 0 && row <= 12) { const long* r = ROWS[row - 1];
    mi_option_set(mi_option_purge_delay, r[0]); mi_option_set(mi_option_purge_decommits, r[1]); mi_option_set(mi_option_eager_commit, r[2]); mi_option_set(mi_option_eager_commit_delay, r[3]);
    mi_option_set(mi_option_arena_eager_commit, r[4]); mi_option_set(mi_option_disallow_arena_alloc, r[5]); mi_option_set(mi_option_arena_reserve, r[6]);
    mi_option_set(mi_option_abandoned_reclaim_on_free, r[7]); mi_option_set(mi_option_target_segments_per_thread, r[8]); }
  backing = mi_heap_get_backing();
  if (use_arena) {
    size_t asz = (size_t)8 * MI_ARENA_BLOCK_SIZE;
    if (mi_reserve_os_memory_ex(asz, false, false, true, &excl_arena) == 0) { size_t sz = 0; excl_start = (uint8_t*)mi_arena_area(excl_arena, &sz); excl_size = sz; if (excl_start == NULL) FAIL("c15_arena_area", "mi_arena_area returned NULL"); }
    else use_arena = 0;
  }
  for (long i = 0; i < ops; i++) {
    unsigned op = (unsigned)(rnd() % 1000);
    static int dis = -1; if (dis < 0) dis = getenv("SEQ_DISABLE") ? atoi(getenv("SEQ_DISABLE")) : 0;
    if ((dis & 1) && op >= 980 && op < 984) continue; if ((dis & 2) && op >= 900 && op < 940) continue; if ((dis & 4) && op >= 760 && op < 900) continue;
    if ((dis & 8) && op >= 960 && op < 980) continue; if ((dis & 16) && op >= 940 && op < 960) continue;
    if (op < 430) op_alloc(); else if (op < 760) op_free(); else if (op < 900) op_realloc(); else if (op < 940) op_heap(); else if (op < 960) op_owner();
    else if (op < 975) op_visit(); else if (op < 980) op_visit_stop(); else if (op < 984 && (flags & 1 || rnd() % 4 == 0)) op_thread_exit();
    else if (op < 990) { for (int k = 0; k < nlive; k += 3) check_block(&live[k], "sweep"); }
    else { // zero-size requests return unique pointers
      void* z[8]; for (int k = 0; k < 8; k++) z[k] = mi_malloc(0); for (int a = 0; a < 8; a++) for (int b2 = a + 1; b2 < 8; b2++) if (z[a] && z[a] == z[b2]) FAIL("c01_zero_size_not_unique", "mi_malloc(0) returned %p twice", z[a]); for (int k = 0; k < 8; k++) mi_free(z[k]); n_eval++; }
    if (nfail > 30) break;
  }
  for (int k = 0; k < nlive; k++) check_block(&live[k], "final");
  op_visit();
  // everything can still be freed individually
  while (nlive > 0) { mi_free(live[nlive - 1].p); nlive--; }
  for (int i = 0; i < NH; i++) if (heaps[i]) { if (default_is == i) mi_heap_set_default(backing); mi_heap_delete(heaps[i]); }
  mi_collect(true);
  printf("STAT evaluations %ld\nOPS", n_eval); for (int i = 0; i < 32; i++) printf(" %ld", opcount[i]); printf("\nDONE\n"); fflush(stdout);
  return 0;
}
