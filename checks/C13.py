"""C13 — guarantees hold under every option setting; purging never touches live data
(T1: the purge / commit range arithmetic regenerated from segment.c + theorem; the oracles of C01-C05/C12 re-run under a pairwise
covering array of option rows, in the release build (content check: a purge of live data zeroes it) and in the MI_DEBUG build where
decommit really revokes access (a stray access faults))."""
import os
import vcommon as V
from checks import seqcommon

TRUSTED = ['Lean 4 kernel', 'translator extract/translate.py (mi_segment_commit_mask, _mi_align_up/_mi_align_down; validated against the compiled functions in C16\'s translator validation)',
           'the models of C01/C03/C04/C05/C12 do not mention options: their theorems hold for every setting; what options change (which ranges get committed / purged / recommitted, arena use) is proved for the range arithmetic only and searched by the option-row oracle for the rest',
           'hardware accessibility is observed, not proved: SIGSEGV in the MI_DEBUG build, zeroed contents in the release build']

ROWS = 12

def run(chk):
    chk.trusted = TRUSTED
    chk.assumptions = ['12 option rows = pairwise covering array over purge_delay {-1,0,1,10}, purge_decommits, eager_commit, eager_commit_delay, arena_eager_commit {0,1,2}, disallow_arena_alloc, arena_reserve {64 MiB, 1 GiB}, abandoned_reclaim_on_free, target_segments_per_thread {0,2}',
                       'time-dependent purging (delays 1 and 10 ms) uses the real clock in this oracle; the virtual-clock treatment is C18']
    chk.extra['rule'] = ('obligations = theorems of Props/C13.lean over regenerated definitions; evaluations = API calls of the shadow oracle summed over option rows and builds; distinct = (row, build, seed) runs')
    chk.lean('MiVerif.Props.C13', groups=['Arith'])
    thorough = chk.tier == 'thorough'
    with V.Scratch() as d:
        hs = seqcommon.build(chk, d)
        hd = seqcommon.build(chk, d, flags=('-DMI_DEBUG=2',), tag='dbg')
        pre = ('c01_', 'c03_', 'c04_', 'c05_', 'c12_', 'c10_heap_changed')   # c10_heap_changed_by_forced_abandon: known finding (rows with target_segments_per_thread > 0)     # every guarantee re-checked per row; the known finding keeps its own key
        rows = list(range(1, ROWS + 1))
        drows = rows if thorough else [r for r in rows if (r + chk.seed) % 2 == 0]      # MI_DEBUG build: quick runs half of the rows, rotating with the seed
        ops = 30000 if thorough else 10000
        if hs:
            seqcommon.run(chk, hs, [(chk.seed * 70 + r, ops, r, 0) for r in rows] + [(chk.seed * 70 + 50 + r, ops, r, 1) for r in rows[:2]], pre)
        if hd:
            # row 3 (reset instead of decommit + lazy commit) in the MI_DEBUG build: known finding (the debug-only memset of _mi_os_reset
            # touches the uncommitted part of a partially committed span); any crash of that row is reported under that key
            seqcommon.run(chk, hd, [(chk.seed * 70 + 20 + r, ops // 2, r, 0) for r in drows], pre, tag='dbg', timeout=900,
                          crash_key=lambda cmd: 'C13/debug_reset_touches_uncommitted' if cmd[3] == '3' else 'C13/seq-crash')
        chk.extra['option_rows_run'] = rows
