import MiVerif.Model.DelayedExec
open Delayed

namespace DelayedVal

def parseFlag : String → Option Flag
  | "use" => some .use | "freeing" => some .freeing | "no" => some .no | "never" => some .never | _ => none
def parseBlk (s : String) : Option Blk := if s = "-1" then none else s.toNat?
/-- "(h,f)" -/
def parseWord (s : String) : Option (Option Blk × Flag) :=
  let t := ((s.drop 1).dropEnd 1).toString
  match t.splitOn "," with
  | [h, f] => (parseFlag f).map (fun fl => (parseBlk h, fl))
  | _ => none

def pcOf (s : St) (b : Blk) : Option Pc := (findB s.fl b).map (·.2.1.pc)

def silent : List Lbl := [.procStart, .procSetUse, .procFree, .lfCollect, .procNever]
/-- faithful restriction: the silent `procSetUse` is the no-CAS path (flag already `use`) -/
def silentOk (s : St) : Lbl → Bool
  | .procSetUse => s.flag == .use
  | _ => true

/-- depth-first search for silent owner steps after which `goal` succeeds -/
partial def withSilent (depth : Nat) (s : St) (goal : St → Option St) : Option (St × Nat) :=
  match goal s with
  | some s' => some (s', 0)
  | none =>
    if depth = 0 then none else
    silent.firstM fun l =>
      if silentOk s l then
        match exec s l with
        | some s1 => (withSilent (depth - 1) s1 goal).map (fun (r, n) => (r, n + 1))
        | none => none
      else none

structure V where
  s : St
  cur : List (String × Blk) := []     -- remote thread → block it is freeing
  steps : Nat := 0
  silents : Nat := 0
  events : Nat := 0

def hd (l : List Blk) : Option Blk := l.head?

def parseHead (t : String) (pre : String) : Option (Option Blk) :=
  if t.startsWith pre then some (parseBlk (t.drop pre.length).toString) else none

/-- owner events carry the observed heads of the owner-local lists: first take the owner-local (silent) model
    steps that bring the model's `lf`/`free` heads to the observed ones -/
def syncOwner (v : V) (obs : String) : Except String V :=
  match obs.splitOn " " with
  | [a, b] =>
    match parseHead a "lf=", parseHead b "fr=" with
    | some lfh, some frh =>
      match withSilent 6 v.s (fun s => if s.lf.head? = lfh ∧ s.free.head? = frh then some s else none) with
      | some (s', n) => pure { v with s := s', steps := v.steps + n, silents := v.silents + n }
      | none => throw s!"owner-local lists (lf head {repr lfh}, free head {repr frh}) not reachable by owner-local model steps; model lf={v.s.lf.take 4} free={v.s.free.take 4} own={v.s.own} pend={v.s.pend}"
    | _, _ => throw "parse owner-local heads"
  | _ => throw "parse owner-local heads"

def stepV (v0 : V) (line0 : String) : Except String V := do
  let (line, v) ← (match line0.splitOn " | " with
    | [l, obs] => (syncOwner v0 obs).map (fun v => (l, v))
    | _ => pure (line0, v0) : Except String (String × V))
  let toks := line.splitOn " "
  let s := v.s
  let fail (m : String) : Except String V := throw s!"{m} at `{line}` tf={s.tf} flag={repr s.flag} dl={s.dl} pend={s.pend} own={s.own} free={s.free.take 4} lf={s.lf.take 4}"
  let ok (s' : St) (n : Nat := 0) : Except String V := pure { v with s := s', steps := v.steps + 1 + n, silents := v.silents + n, events := v.events + 1 }
  let doL (l : Lbl) : Except String V :=
    match exec s l with
    | some s' => ok s'
    | none => fail s!"label {repr l} not enabled"
  match toks with
  | ["B", t, "free", b] =>
    match b.toNat? with
    | some b => match exec s (.start b) with
      | some s' => pure { v with s := s', cur := (t, b) :: v.cur.filter (·.1 != t), steps := v.steps + 1, events := v.events + 1 }
      | none => fail "start not enabled (block not live)"
    | none => fail "parse"
  | ["X", t, "free-done"] =>
    match v.cur.find? (·.1 == t) with
    | some (_, b) => if (pcOf s b).isSome then fail "free returned but the model's flight is not finished" else pure { v with cur := v.cur.filter (·.1 != t) }
    | none => fail "no current block"
  | ["B", "t0", "malloc", "->", k] =>
    match withSilent 8 s (fun s => match s.free with
        | b :: _ => if some b = k.toNat? then exec s .malloc else none
        | [] => none) with
    | some (s', n) => ok s' n
    | none => fail "malloc result not explained by the model"
  | ["B", "t0", "freelocal", k] => match k.toNat? with
    | some b => doL (.freeLocal b)
    | none => fail "parse"
  | ["B", "t0", "collect"] => pure v
  | ["X", "t0", "collect-done"] =>
    match withSilent 200 s (fun s => if s.own = [] ∧ s.pend = [] then some s else none) with
    | some (s', n) => pure { v with s := s', steps := v.steps + n, silents := v.silents + n }
    | none => fail "owner did not finish its delayed list"
  | ["E", _, "load", "xheap"] => pure v
  | ["E", "t0", "load", "dl", d] => if hd s.dl = parseBlk d then pure { v with events := v.events + 1 } else fail "observed delayed head differs"
  | ["E", "t0", "casw", "dl", w, r] =>
    if r != "ok" then pure v else
    match w.splitOn "->" with
    | [a, b] =>
      if hd s.dl != parseBlk a then fail "observed delayed head differs at the owner's CAS" else
      match parseBlk b with
      | none => doL .takeDl                      -- head -> NULL: the owner takes the list over
      | some nb =>                               -- head -> block: the owner re-pushes the block it gave up on
        match withSilent 2 s (fun s => match s.own with | [(b', false)] => if b' = nb then exec s .procGiveUp else none | _ => none) with
        | some (s', n) => ok s' n
        | none => fail "owner re-push not explained by the model"
    | _ => fail "parse"
  | ["E", "t0", "load", "xtf", w] =>
    match parseWord w with
    | some (h, f) => if hd s.tf = h ∧ s.flag = f then pure { v with events := v.events + 1 } else fail "observed xthread_free differs"
    | none => fail "parse"
  | ["E", "t0", "casw", "xtf", w, r] =>
    if r != "ok" then pure v else
    match w.splitOn "->" with
    | [a, b] => match parseWord a, parseWord b with
      | some (h, f), some (h', f') =>
        if f != f' then
          -- flag change by the owner: procSetUse (after silent steps)
          match withSilent 6 s (fun s => if hd s.tf = h ∧ s.flag = f ∧ f' = .use then (match s.own with | [(_, false)] => exec s .procSetUse | _ => none) else none) with
          | some (s', n) => ok s' n
          | none => fail "owner flag change not explained"
        else if h' = none then
          if hd s.tf = h then doL .tfCollect else fail "observed head differs at collect"
        else fail "unexpected owner CAS"
      | _, _ => fail "parse"
    | _ => fail "parse"
  | ["E", t, "load", "xtf", w] =>
    match v.cur.find? (·.1 == t), parseWord w with
    | some (_, b), some (h, f) =>
      if ¬ (hd s.tf = h ∧ s.flag = f) then fail "observed xthread_free differs" else
      match pcOf s b with
      | some .r1 => doL (.load b)
      | some .r5load => doL (.load5 b)
      | _ => fail "load at unexpected pc"
    | _, _ => fail "parse/no current"
  | ["E", t, "casw", "xtf", w, r] =>
    match v.cur.find? (·.1 == t), w.splitOn "->" with
    | some (_, b), [ow, nw] =>
      match pcOf s b, parseWord ow, parseWord nw with
      | some (.r2 _ _), some (_, f), some (_, f') =>
        if r = "ok" then (if f = .use ∧ f' = .freeing then doL (.cas2delay b) else doL (.cas2push b)) else doL (.cas2fail b)
      | some (.r5 _ _), _, _ => if r = "ok" then doL (.cas5ok b) else doL (.cas5fail b)
      | _, _, _ => fail "cas at unexpected pc"
    | _, _ => fail "parse/no current"
  | ["E", t, "load", "dl", d] =>
    match v.cur.find? (·.1 == t) with
    | some (_, b) => if hd s.dl = parseBlk d then doL (.load4 b) else fail "observed delayed head differs"
    | none => fail "no current"
  | ["E", t, "casw", "dl", _, r] =>
    match v.cur.find? (·.1 == t) with
    | some (_, b) => if r = "ok" then doL (.cas4ok b) else doL (.cas4fail b)
    | none => fail "no current"
  | _ => pure v

def parseInit (l : String) : Option St :=
  -- "init live a b c free d e lf f g flag use"
  let toks := l.splitOn " "
  let rec go (ts : List String) (mode : String) (live free lf : List Nat) (flag : Flag) : Option St :=
    match ts with
    | [] => some { tf := [], flag := flag, dl := [], pend := [], own := [], free := free.reverse, lf := lf.reverse, live := live.reverse, fl := [] }
    | t :: rest =>
      if t == "live" ∨ t == "free" ∨ t == "lf" ∨ t == "flag" then go rest t live free lf flag
      else if mode == "flag" then (parseFlag t).bind (fun f => go rest mode live free lf f)
      else match t.toNat? with
        | some k => if mode == "live" then go rest mode (k :: live) free lf flag
                    else if mode == "free" then go rest mode live (k :: free) lf flag
                    else go rest mode live free (k :: lf) flag
        | none => none
  match toks with
  | "init" :: rest => go rest "" [] [] [] .use
  | _ => none

/-- exit codes: 0 accepted, 1 disagreement, 3 run outside the model (page extension / other page) -/
def main (stdin : IO.FS.Stream) : IO UInt32 := do
  let mut v : V := { s := { tf := [], flag := .use, dl := [], pend := [], own := [], free := [], lf := [], live := [], fl := [] } }
  let mut n := 0
  let mut started := false
  repeat
    let line ← stdin.getLine
    if line.isEmpty then break
    let l := line.trimAscii.toString
    n := n + 1
    if l.isEmpty ∨ l.startsWith "page" ∨ l.startsWith "done" ∨ l.startsWith "FAIL" then continue
    if l.startsWith "SKIP" ∨ l.startsWith "B t0 extended" ∨ l.startsWith "B t0 malloc-other-page" then
      IO.println s!"skipped: {l}"; return 3
    if l.startsWith "init" then
      match parseInit l with
      | some s0 => v := { s := s0 }; started := true; continue
      | none => IO.println s!"DISAGREE line {n}: cannot parse init line"; return 1
    if !started then continue
    match stepV v l with
    | .ok v' => v := v'
    | .error e => IO.println s!"DISAGREE line {n}: {e}"; return 1
  IO.println s!"accepted: {v.events} events, {v.steps} model steps ({v.silents} silent), final live={v.s.live.length} flag={repr v.s.flag} in-flight={v.s.fl.length}"
  return 0
end DelayedVal
