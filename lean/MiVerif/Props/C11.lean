/- C11 — freed memory is given back: OS regions unmapped.
   Property theorems only.  `GenO._mi_os_free_ex` is regenerated from src/os.c on every run (effect log of the
   requests sent to mi_os_prim_free); the allocation side is MiVerif/Model/Os.lean (compared with the real functions
   through the OS shim).  Page size `ps` is any power of two 4 KiB .. 64 KiB. -/
import MiVerif.Model.Os
import MiVerif.Lemmas.OsAlign
import MiVerif.Lemmas.C16
import MiVerif.Lemmas.OsGood

namespace C11
open OsM

/-- a memory id that records a non-NULL base and a non-zero size makes `_mi_os_free_ex` ask the OS to release exactly the
    recorded range — whatever pointer inside it and whatever size the caller passes -/
theorem free_releases_recorded (ps addr size b s : Nat) (hb : b ≠ 0) (hs : s ≠ 0) (hb2 : b < 2^63) (ha : b ≤ addr) (ha2 : addr < 2^63) :
    osFreeRequests ps addr size { kind := 3, base := b, size := s } = [(b, s)] := by
  unfold osFreeRequests GenO._mi_os_free_ex GenO.mi_memkind_is_os
  by_cases hab : b = addr
  · subst hab; simp [hs, hb]
  · simp [hs, hb, hab]

/-- memory that did not come from the OS (arena, static, external) is never unmapped by `_mi_os_free_ex` -/
theorem free_ignores_non_os (ps addr size kind b s : Nat) (hk : kind < 3) :
    osFreeRequests ps addr size { kind := kind, base := b, size := s } = [] := by
  unfold osFreeRequests GenO._mi_os_free_ex GenO.mi_memkind_is_os
  have : ¬ (kind ≥ 3) := by omega
  simp [this]

/-- round trip for `_mi_os_alloc`: freeing with the recorded memory id releases exactly what stayed mapped -/
theorem os_alloc_roundtrip (ps p size : Nat) (hp : p ≠ 0) (hp2 : p < 2^63) (hg : GenO._mi_os_good_alloc_size ps size ≠ 0) :
    osFreeRequests ps (osAlloc ps p size).ptr size (osAlloc ps p size).memid = [(osAlloc ps p size).mapped] := by
  unfold osAlloc; simp only
  exact free_releases_recorded ps p size p _ hp hg hp2 (Nat.le_refl _) hp2

/-- round trip for `_mi_os_alloc_aligned` (sizes already a multiple of the page size, as `_mi_os_good_alloc_size` makes them) -/
theorem os_alloc_aligned_roundtrip (ps p size : Nat) (hp : p ≠ 0) (hp2 : p < 2^63) (hg : GenO._mi_os_good_alloc_size ps size ≠ 0)
    (hpage : GenO._mi_align_up (GenO._mi_os_good_alloc_size ps size) ps = GenO._mi_os_good_alloc_size ps size) :
    osFreeRequests ps (osAllocAligned ps p size).ptr size (osAllocAligned ps p size).memid = [(osAllocAligned ps p size).mapped] := by
  unfold osAllocAligned; simp only
  rw [hpage]
  exact free_releases_recorded ps p size p _ hp hg hp2 (Nat.le_refl _) hp2

/-- round trip for `_mi_os_alloc_aligned_at_offset`: the caller frees an *interior* pointer (`start + extra`) and the whole
    over-allocation that starts at `start` is released -/
theorem os_alloc_at_offset_roundtrip (ps start size alignment offset : Nat) (hp : start ≠ 0)
    (hfit : start + (GenO._mi_align_up offset alignment - offset) < 2^63)
    (hg : GenO._mi_os_good_alloc_size ps (size + (GenO._mi_align_up offset alignment - offset)) ≠ 0)
    (hpage : GenO._mi_align_up (GenO._mi_os_good_alloc_size ps (size + (GenO._mi_align_up offset alignment - offset))) ps
             = GenO._mi_os_good_alloc_size ps (size + (GenO._mi_align_up offset alignment - offset))) :
    osFreeRequests ps (osAllocAlignedAtOffset ps start size alignment offset).ptr size (osAllocAlignedAtOffset ps start size alignment offset).memid
      = [(osAllocAlignedAtOffset ps start size alignment offset).mapped] := by
  unfold osAllocAlignedAtOffset osAllocAligned; simp only
  rw [hpage]
  exact free_releases_recorded ps _ size start _ hp hg (by omega) (by omega) hfit

/-- the fallback of `_mi_os_free_ex` when a memory id carries no size: the page-rounded request size is used, never 0 for a
    non-empty request (the defect repaired in /repo dropped this value) -/
theorem free_fallback_size (ps addr size : Nat) (ha : addr ≠ 0) (hs : GenO._mi_os_good_alloc_size ps size ≠ 0) :
    osFreeRequests ps addr size { kind := 3, base := addr, size := 0 } = [(addr, GenO._mi_os_good_alloc_size ps size)] := by
  unfold osFreeRequests GenO._mi_os_free_ex GenO.mi_memkind_is_os
  simp [hs, ha]

-- non-vacuity: a 100 MiB block at a concrete address
example : osFreeRequests 4096 0x7f0000000000 104857600 (osAlloc 4096 0x7f0000000000 104857600).memid = [(0x7f0000000000, 104857600)] := by decide

/-- **the over-allocate-and-trim fallback of `mi_os_prim_alloc_aligned`, as regenerated from src/os.c** (taken when the first attempt `p1`
    comes back unaligned — e.g. after the address-hinted `mmap` was refused — on systems that can unmap parts of a mapping; the OS
    allocation primitive is an arbitrary function): of the over-allocation `[q, q + size + alignment)` it gives back the front
    `[q, P)` and the rest after `P + size`, returns `P` — the first multiple of the alignment at or after `q` — and records *that* as the
    base: the recorded base and size describe exactly the memory that is still mapped, which is what `_mi_os_free_ex` later unmaps
    (`free_releases_recorded_range`); recording `q` instead (seed C07-4) unmaps the front a second time -/
theorem generated_os_alloc_aligned_fallback_keeps_what_it_records (ps : Nat) (alloc : Nat → Nat → Nat → Nat → Nat → Nat → Nat)
    (hpf size alignment commit al il iz base p1 q P : Nat)
    (hA : alignment ≥ ps) (hpow : alignment &&& (((alignment + 18446744073709551616 - 1)) % 18446744073709551616) = 0) (ha0 : 0 < alignment)
    (ha63 : alignment < 2^63)
    (hsz : GenO._mi_align_up size ps = size)
    (hfit : size + alignment < 2^64 - 1)
    (hp1e : alloc size alignment commit (if ¬ (commit ≠ 0) then (if 0 ≠ 0 then 1 else 0) else al) il iz = p1)
    (hp1 : p1 ≠ 0) (hun : p1 % alignment ≠ 0)
    (hpart : hpf ≠ 0)
    (hqe : alloc (size + alignment) 1 commit (if 0 ≠ 0 then 1 else 0) il iz = q)
    (hq : q ≠ 0) (hqfit : q + (size + alignment) < 2^64)
    (hP : P = (q + alignment - 1) / alignment * alignment) :
    GenO.mi_os_prim_alloc_aligned ps alloc hpf size alignment commit al il iz base =
      (P, P, [("mi_os_prim_free", [p1, size, (if commit ≠ 0 then size else 0)])]
              ++ (if P - q > 0 then [("mi_os_prim_free", [q, P - q, (if commit ≠ 0 then P - q else 0)])] else [])
              ++ (if size + alignment - (P - q) - size > 0 then
                    [("mi_os_prim_free", [P + size, size + alignment - (P - q) - size, (if commit ≠ 0 then size + alignment - (P - q) - size else 0)])] else []))
    ∧ q ≤ P ∧ P < q + alignment ∧ P % alignment = 0 := by
  have e63 : (2:Nat)^63 = 9223372036854775808 := by decide
  have e64 : (2:Nat)^64 = 18446744073709551616 := by decide
  rw [e63] at ha63
  rw [e64] at hfit hqfit
  exact OsAlignL.fallback_exact ps alloc hpf size alignment commit al il iz base p1 q P hA hpow ha0 ha63 hsz (by omega) hp1e hp1 hun hpart hqe hq hqfit hP

-- non-vacuity: a 64 KiB request aligned to 32 MiB whose first attempt and over-allocation both come back 10 MiB past a 32 MiB boundary:
-- 22 MiB of front and 10 MiB of rest are given back, the aligned 64 KiB in between are kept and recorded
example : GenO.mi_os_prim_alloc_aligned 4096 (fun sz al _ _ _ _ => if al = 1 then 139706807357440 else 139638087880704) 1 65536 33554432 1 0 0 0 0 =
    (139706830422016, 139706830422016,
     [("mi_os_prim_free", [139638087880704, 65536, 65536]), ("mi_os_prim_free", [139706807357440, 23064576, 23064576]),
      ("mi_os_prim_free", [139706830487552, 10489856, 10489856])]) := by decide

/-- **`_mi_os_good_alloc_size` as regenerated from src/os.c**, for every page size that divides 64 KiB and every request below 2^63:
    the rounded size is at least the request, a whole number of pages (so the page rounding `_mi_os_alloc_aligned` applies on top of
    it changes nothing), never 0 for a non-empty request, and larger than the request by less than one page below 512 KiB and by
    less than an eighth of the request above — the hypotheses `hg` / `hpage` of the round-trip theorems above are theorems about the
    generated code, not assumptions -/
theorem generated_good_alloc_size_is_whole_pages (ps size : Nat) (hps : 0 < ps) (hd : ps ∣ 65536) (hs : size < 2^63) :
    size ≤ GenO._mi_os_good_alloc_size ps size
    ∧ GenO._mi_os_good_alloc_size ps size < size + size / 8 + ps
    ∧ GenO._mi_os_good_alloc_size ps size % ps = 0
    ∧ (size ≠ 0 → GenO._mi_os_good_alloc_size ps size ≠ 0)
    ∧ GenO._mi_align_up (GenO._mi_os_good_alloc_size ps size) ps = GenO._mi_os_good_alloc_size ps size := by
  have hps2 : ps ≤ 65536 := Nat.le_of_dvd (by decide) hd
  have heq := OsGoodL.good_eq ps size hps hps2 hs
  have hpos := OsGoodL.goodAlign_pos ps size hps
  obtain ⟨f1, f2, f3⟩ := OsGoodL.roundup_facts size (OsGoodL.goodAlign ps size) hpos
  have hdv : ps ∣ GenO._mi_os_good_alloc_size ps size := by
    rw [heq]; exact Nat.dvd_trans (OsGoodL.ps_dvd_goodAlign ps size hd) (Nat.dvd_mul_left _ _)
  have hover : OsGoodL.goodAlign ps size ≤ size / 8 + ps := by
    unfold OsGoodL.goodAlign; repeat' split
    all_goals omega
  have e63 : (2:Nat)^63 = 9223372036854775808 := by decide
  rw [e63] at hs
  have hal : OsGoodL.goodAlign ps size ≤ 4194304 := by
    unfold OsGoodL.goodAlign; repeat' split
    all_goals omega
  rw [← heq] at f1 f2
  refine ⟨f1, by omega, Nat.mod_eq_zero_of_dvd hdv, fun h0 => by omega, ?_⟩
  obtain ⟨k, hk⟩ := hdv
  rw [OsAlignL.align_up_same, C16L.align_up_eq _ ps hps (by
    have e64 : (2:Nat)^64 = 18446744073709551616 := by decide
    rw [e64]; omega), hk]
  have : (ps * k + ps - 1) / ps = k := by
    have h1 : ps * k + ps - 1 = (ps - 1) + ps * k := by omega
    rw [h1, Nat.add_mul_div_left _ _ hps, Nat.div_eq_of_lt (by omega)]; omega
  rw [this, Nat.mul_comm]

/-- round trip for `_mi_os_alloc_aligned` with no assumption about the rounded size left: every non-empty request below 2^63, every
    page size dividing 64 KiB -/
theorem os_alloc_aligned_roundtrip_every_size (ps p size : Nat) (hp : p ≠ 0) (hp2 : p < 2^63) (hps : 0 < ps) (hd : ps ∣ 65536)
    (hs0 : size ≠ 0) (hs : size < 2^63) :
    osFreeRequests ps (osAllocAligned ps p size).ptr size (osAllocAligned ps p size).memid = [(osAllocAligned ps p size).mapped] := by
  obtain ⟨_, _, _, g0, gp⟩ := generated_good_alloc_size_is_whole_pages ps size hps hd hs
  exact os_alloc_aligned_roundtrip ps p size hp hp2 (g0 hs0) gp

/-- round trip for `_mi_os_alloc` likewise -/
theorem os_alloc_roundtrip_every_size (ps p size : Nat) (hp : p ≠ 0) (hp2 : p < 2^63) (hps : 0 < ps) (hd : ps ∣ 65536)
    (hs0 : size ≠ 0) (hs : size < 2^63) :
    osFreeRequests ps (osAlloc ps p size).ptr size (osAlloc ps p size).memid = [(osAlloc ps p size).mapped] := by
  obtain ⟨_, _, _, g0, _⟩ := generated_good_alloc_size_is_whole_pages ps size hps hd hs
  exact os_alloc_roundtrip ps p size hp hp2 (g0 hs0)

/-- what the fallback of `_mi_os_free_ex` releases for a memory id without a recorded size covers the request and is whole pages -/
theorem free_fallback_covers_request (ps addr size : Nat) (ha : addr ≠ 0) (hps : 0 < ps) (hd : ps ∣ 65536) (hs0 : size ≠ 0) (hs : size < 2^63) :
    ∃ g, osFreeRequests ps addr size { kind := 3, base := addr, size := 0 } = [(addr, g)] ∧ size ≤ g ∧ g % ps = 0 := by
  obtain ⟨g1, _, g3, g0, _⟩ := generated_good_alloc_size_is_whole_pages ps size hps hd hs
  exact ⟨_, free_fallback_size ps addr size ha (g0 hs0), g1, g3⟩

-- non-vacuity: 4 KiB pages, a 3 MiB + 1 byte request is rounded to 3 MiB + 256 KiB
example : GenO._mi_os_good_alloc_size 4096 3145729 = 3407872 := by decide
example : (4096 : Nat) ∣ 65536 := ⟨16, by decide⟩

end C11
