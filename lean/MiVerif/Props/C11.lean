/- C11 — freed memory is given back: OS regions unmapped.
   Property theorems only.  `GenO._mi_os_free_ex` is regenerated from src/os.c on every run (effect log of the
   requests sent to mi_os_prim_free); the allocation side is MiVerif/Model/Os.lean (compared with the real functions
   through the OS shim).  Page size `ps` is any power of two 4 KiB .. 64 KiB. -/
import MiVerif.Model.Os
import MiVerif.Lemmas.C16

namespace C11
open OsM

/-- a memory id that records a non-NULL base and a non-zero size makes `_mi_os_free_ex` ask the OS to release exactly the
    recorded range — whatever pointer inside it and whatever size the caller passes -/
theorem free_releases_recorded (ps addr size b s : Nat) (hb : b ≠ 0) (hs : s ≠ 0) (hb2 : b < 2^63) (ha : b ≤ addr) (ha2 : addr < 2^63) :
    osFreeRequests ps addr size { kind := 3, base := b, size := s } = [(b, s)] := by
  unfold osFreeRequests GenO._mi_os_free_ex GenO.mi_memkind_is_os
  by_cases hab : b = addr
  · subst hab; simp [hs, hb]
  · simp [hs, hb, hab]

/-- memory that did not come from the OS (arena, static, external) is never unmapped by `_mi_os_free_ex` -/
theorem free_ignores_non_os (ps addr size kind b s : Nat) (hk : kind < 3) :
    osFreeRequests ps addr size { kind := kind, base := b, size := s } = [] := by
  unfold osFreeRequests GenO._mi_os_free_ex GenO.mi_memkind_is_os
  have : ¬ (kind ≥ 3) := by omega
  simp [this]

/-- round trip for `_mi_os_alloc`: freeing with the recorded memory id releases exactly what stayed mapped -/
theorem os_alloc_roundtrip (ps p size : Nat) (hp : p ≠ 0) (hp2 : p < 2^63) (hg : GenO._mi_os_good_alloc_size ps size ≠ 0) :
    osFreeRequests ps (osAlloc ps p size).ptr size (osAlloc ps p size).memid = [(osAlloc ps p size).mapped] := by
  unfold osAlloc; simp only
  exact free_releases_recorded ps p size p _ hp hg hp2 (Nat.le_refl _) hp2

/-- round trip for `_mi_os_alloc_aligned` (sizes already a multiple of the page size, as `_mi_os_good_alloc_size` makes them) -/
theorem os_alloc_aligned_roundtrip (ps p size : Nat) (hp : p ≠ 0) (hp2 : p < 2^63) (hg : GenO._mi_os_good_alloc_size ps size ≠ 0)
    (hpage : GenO._mi_align_up (GenO._mi_os_good_alloc_size ps size) ps = GenO._mi_os_good_alloc_size ps size) :
    osFreeRequests ps (osAllocAligned ps p size).ptr size (osAllocAligned ps p size).memid = [(osAllocAligned ps p size).mapped] := by
  unfold osAllocAligned; simp only
  rw [hpage]
  exact free_releases_recorded ps p size p _ hp hg hp2 (Nat.le_refl _) hp2

/-- round trip for `_mi_os_alloc_aligned_at_offset`: the caller frees an *interior* pointer (`start + extra`) and the whole
    over-allocation that starts at `start` is released -/
theorem os_alloc_at_offset_roundtrip (ps start size alignment offset : Nat) (hp : start ≠ 0)
    (hfit : start + (GenO._mi_align_up offset alignment - offset) < 2^63)
    (hg : GenO._mi_os_good_alloc_size ps (size + (GenO._mi_align_up offset alignment - offset)) ≠ 0)
    (hpage : GenO._mi_align_up (GenO._mi_os_good_alloc_size ps (size + (GenO._mi_align_up offset alignment - offset))) ps
             = GenO._mi_os_good_alloc_size ps (size + (GenO._mi_align_up offset alignment - offset))) :
    osFreeRequests ps (osAllocAlignedAtOffset ps start size alignment offset).ptr size (osAllocAlignedAtOffset ps start size alignment offset).memid
      = [(osAllocAlignedAtOffset ps start size alignment offset).mapped] := by
  unfold osAllocAlignedAtOffset osAllocAligned; simp only
  rw [hpage]
  exact free_releases_recorded ps _ size start _ hp hg (by omega) (by omega) hfit

/-- the fallback of `_mi_os_free_ex` when a memory id carries no size: the page-rounded request size is used, never 0 for a
    non-empty request (the defect repaired in /repo dropped this value) -/
theorem free_fallback_size (ps addr size : Nat) (ha : addr ≠ 0) (hs : GenO._mi_os_good_alloc_size ps size ≠ 0) :
    osFreeRequests ps addr size { kind := 3, base := addr, size := 0 } = [(addr, GenO._mi_os_good_alloc_size ps size)] := by
  unfold osFreeRequests GenO._mi_os_free_ex GenO.mi_memkind_is_os
  simp [hs, ha]

-- non-vacuity: a 100 MiB block at a concrete address
example : osFreeRequests 4096 0x7f0000000000 104857600 (osAlloc 4096 0x7f0000000000 104857600).memid = [(0x7f0000000000, 104857600)] := by decide

end C11
