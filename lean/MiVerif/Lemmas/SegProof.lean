import MiVerif.Model.Segment
namespace SegM

/-! Probe: representation invariant of the slice map w.r.t. a ghost span list, preservation by `spanAllocate`. -/

abbrev Span := Nat × Nat × Bool      -- start, count, used

/-- contiguous chain of spans from `i` ending at `e` -/
inductive Chain : Nat → List Span → Nat → Prop where
  | nil (i) : Chain i [] i
  | cons {i c u rest e} : 0 < c → Chain (i + c) rest e → Chain i ((i, c, u) :: rest) e

theorem Chain.bounds {i e : Nat} {sp : List Span} (h : Chain i sp e) :
    i ≤ e ∧ ∀ x ∈ sp, i ≤ x.1 ∧ x.1 + x.2.1 ≤ e ∧ 0 < x.2.1 := by
  induction h with
  | nil i => exact ⟨Nat.le_refl _, by intro x hx; cases hx⟩
  | cons hc _ ih =>
    obtain ⟨h1, h2⟩ := ih
    refine ⟨by omega, ?_⟩
    intro x hx
    rcases List.mem_cons.mp hx with rfl | hx
    · exact ⟨Nat.le_refl _, by simpa using h1, hc⟩
    · obtain ⟨a, b, c'⟩ := h2 x hx
      exact ⟨by omega, b, c'⟩

/-- two members of a chain are equal or have disjoint index ranges -/
theorem Chain.disjoint {i e : Nat} {sp : List Span} (h : Chain i sp e) :
    ∀ x ∈ sp, ∀ y ∈ sp, x = y ∨ x.1 + x.2.1 ≤ y.1 ∨ y.1 + y.2.1 ≤ x.1 := by
  induction h with
  | nil i => intro x hx; cases hx
  | cons hc hrest ih =>
    intro x hx y hy
    have hb := hrest.bounds
    rcases List.mem_cons.mp hx with rfl | hx <;> rcases List.mem_cons.mp hy with rfl | hy
    · left; rfl
    · right; left; exact (hb.2 y hy).1
    · right; right; exact (hb.2 x hx).1
    · exact ih x hx y hy

-- get/set on the array model
theorem get_set (g : Seg) (i j : Nat) (v : Slice) (hi : i < g.slices.size) :
    get (set g i v) j = if i = j then v else get g j := by
  unfold get set
  simp only [Array.set!_eq_setIfInBounds, Array.getElem!_eq_getD, Array.getD_eq_getD_getElem?,
             Array.getElem?_setIfInBounds]
  by_cases h : i = j
  · subst h; simp [hi]
  · simp [h]

@[simp] theorem set_entries (g : Seg) (i : Nat) (v : Slice) : (set g i v).entries = g.entries := rfl
@[simp] theorem set_size (g : Seg) (i : Nat) (v : Slice) : (set g i v).slices.size = g.slices.size := by
  unfold set; simp
@[simp] theorem set_queues (g : Seg) (i : Nat) (v : Slice) : (set g i v).queues = g.queues := rfl

/-- what the code guarantees about the entries of one span (queue membership left out of this probe) -/
def SpanOk (g : Seg) (x : Span) : Prop :=
  let s := x.1; let c := x.2.1; let u := x.2.2
  (get g s).count = c ∧ (get g s).off = 0 ∧ ((get g s).bs > 0 ↔ u = true) ∧
  (c > 1 → (get g (s + c - 1)).off = c - 1 ∧ (get g (s + c - 1)).count = 0 ∧
           ((get g (s + c - 1)).bs > 0 ↔ u = true)) ∧
  (u = true → ∀ k, 1 ≤ k → k ≤ min (c - 1) 255 → (get g (s + k)).off = k ∧ (get g (s + k)).count = 0 ∧ (get g (s + k)).bs = 1)

structure Repr (g : Seg) (sp : List Span) : Prop where
  size  : g.slices.size = g.entries + 1
  chain : Chain 0 sp g.entries
  ok    : ∀ x ∈ sp, SpanOk g x

end SegM

namespace SegM

/-- the follower-setting loop of `spanAllocate` -/
def setFollowers (g : Seg) (idx n : Nat) : Seg :=
  (List.range n).foldl (fun g k => let i := k + 1; set g (idx + i) { get g (idx + i) with off := i, count := 0, bs := 1 }) g

theorem setFollowers_size (g : Seg) (idx n : Nat) : (setFollowers g idx n).slices.size = g.slices.size := by
  unfold setFollowers
  induction n with
  | zero => simp
  | succ n ih => rw [List.range_succ, List.foldl_append]; simp [ih]

theorem setFollowers_entries (g : Seg) (idx n : Nat) : (setFollowers g idx n).entries = g.entries := by
  unfold setFollowers
  induction n with
  | zero => simp
  | succ n ih => rw [List.range_succ, List.foldl_append]; simp [ih]

theorem setFollowers_get (g : Seg) (idx n j : Nat) (hb : idx + n < g.slices.size) :
    get (setFollowers g idx n) j =
      if idx < j ∧ j ≤ idx + n then { count := 0, off := j - idx, bs := 1 } else get g j := by
  induction n with
  | zero =>
    have : ¬ (idx < j ∧ j ≤ idx + 0) := by omega
    rw [if_neg this]; simp [setFollowers]
  | succ n ih =>
    have ih' := ih (by omega)
    have hsz := setFollowers_size g idx n
    unfold setFollowers at ih' hsz ⊢
    rw [List.range_succ, List.foldl_append]
    simp only [List.foldl_cons, List.foldl_nil]
    rw [get_set _ _ _ _ (by rw [hsz]; omega)]
    by_cases hj : idx + (n + 1) = j
    · subst hj
      have h1 : idx < idx + (n+1) ∧ idx + (n+1) ≤ idx + (n+1) := by omega
      rw [if_pos rfl, if_pos h1]
      congr 1; omega
    · rw [if_neg hj, ih']
      by_cases hr : idx < j ∧ j ≤ idx + n
      · have : idx < j ∧ j ≤ idx + (n+1) := by omega
        rw [if_pos hr, if_pos this]
      · have : ¬ (idx < j ∧ j ≤ idx + (n+1)) := by omega
        rw [if_neg hr, if_neg this]

end SegM

namespace SegM

/-- proof-friendly formulation of `mi_segment_span_allocate` (same writes, same order) -/
def spanAllocate' (g : Seg) (idx count : Nat) : Seg :=
  let extra0 := min (count - 1) 255
  let extra := if idx + extra0 ≥ g.entries then g.entries - idx - 1 else extra0
  let last := min (idx + count - 1) g.entries
  let g1 := set g idx { count := count, off := 0, bs := count * 65536 }
  let g2 := setFollowers g1 idx extra
  let g3 := if last > idx then set g2 last { count := 0, off := last - idx, bs := 1 } else g2
  { g3 with used := g3.used + 1 }

theorem spanAllocate_eq (g : Seg) (idx count : Nat) : spanAllocate g idx count = spanAllocate' g idx count := by
  unfold spanAllocate spanAllocate' setFollowers maxOffsetCount
  simp only [set_entries]
  have he : ∀ (h : Seg) (n : Nat), ((List.range n).foldl (fun g k => let i := k + 1; set g (idx + i) { get g (idx + i) with off := i, count := 0, bs := 1 }) h).entries = h.entries := by
    intro h n; exact setFollowers_entries h idx n
  simp only [he, set_entries]
  rfl

/-- state after `spanAllocate'`, pointwise -/
theorem spanAllocate'_get (g : Seg) (s c j : Nat) (hc : 0 < c) (hfit : s + c ≤ g.entries)
    (hsz : g.slices.size = g.entries + 1) :
    get (spanAllocate' g s c) j =
      if j = s then { count := c, off := 0, bs := c * 65536 }
      else if j = s + c - 1 then { count := 0, off := c - 1, bs := 1 }
      else if s < j ∧ j ≤ s + min (c - 1) 255 then { count := 0, off := j - s, bs := 1 }
      else get g j := by
  unfold spanAllocate'
  have h1 : ¬ (s + min (c - 1) 255 ≥ g.entries) := by omega
  have h2 : min (s + c - 1) g.entries = s + c - 1 := by omega
  simp only [h1, if_false, h2]
  have hget_used : ∀ (h : Seg) (u : Nat), get { h with used := u } j = get h j := fun _ _ => rfl
  rw [hget_used]
  have hs1 : (set g s { count := c, off := 0, bs := c * 65536 }).slices.size = g.entries + 1 := by simp [hsz]
  by_cases hlast : s + c - 1 > s
  · rw [if_pos hlast, get_set _ _ _ _ (by rw [setFollowers_size, hs1]; omega)]
    by_cases hj1 : s + c - 1 = j
    · subst hj1
      have : ¬ (s + c - 1 = s) := by omega
      rw [if_pos rfl, if_neg this, if_pos rfl]; congr 1; omega
    · rw [if_neg hj1, setFollowers_get _ _ _ _ (by rw [hs1]; omega), get_set _ _ _ _ (by rw [hsz]; omega)]
      by_cases hjs : j = s
      · subst hjs
        have : ¬ (j < j ∧ j ≤ j + min (c - 1) 255) := by omega
        rw [if_neg this, if_pos rfl, if_pos rfl]
      · have hjs' : ¬ s = j := fun h => hjs h.symm
        have hj1' : ¬ j = s + c - 1 := fun h => hj1 h.symm
        rw [if_neg hjs, if_neg hj1', if_neg hjs']
  · rw [if_neg hlast, setFollowers_get _ _ _ _ (by rw [hs1]; omega), get_set _ _ _ _ (by rw [hsz]; omega)]
    have hc1 : c = 1 := by omega
    subst hc1
    by_cases hjs : j = s
    · subst hjs
      have : ¬ (j < j ∧ j ≤ j + min (1 - 1) 255) := by omega
      rw [if_neg this, if_pos rfl, if_pos rfl]
    · have hjs' : ¬ s = j := fun h => hjs h.symm
      have h3 : ¬ (s < j ∧ j ≤ s + min (1 - 1) 255) := by omega
      have h4 : ¬ j = s + 1 - 1 := by omega
      rw [if_neg h3, if_neg hjs', if_neg hjs, if_neg h4, if_neg h3]

end SegM

namespace SegM

theorem spanAllocate_ok (g : Seg) (s c : Nat) (hc : 0 < c) (hfit : s + c ≤ g.entries)
    (hsz : g.slices.size = g.entries + 1) : SpanOk (spanAllocate g s c) (s, c, true) := by
  rw [spanAllocate_eq]
  unfold SpanOk
  simp only []
  refine ⟨?_, ?_, ?_, ?_, ?_⟩
  · rw [spanAllocate'_get g s c s hc hfit hsz]; simp
  · rw [spanAllocate'_get g s c s hc hfit hsz]; simp
  · rw [spanAllocate'_get g s c s hc hfit hsz]; simp; omega
  · intro hc1
    rw [spanAllocate'_get g s c (s + c - 1) hc hfit hsz]
    have : ¬ (s + c - 1 = s) := by omega
    simp [this]
  · intro _ k hk1 hk2
    rw [spanAllocate'_get g s c (s + k) hc hfit hsz]
    have h1 : ¬ (s + k = s) := by omega
    by_cases h2 : s + k = s + c - 1
    · rw [if_neg h1, if_pos h2]
      refine ⟨?_, rfl, rfl⟩
      show c - 1 = k
      omega
    · have h3 : s < s + k ∧ s + k ≤ s + min (c - 1) 255 := by omega
      rw [if_neg h1, if_neg h2, if_pos h3]
      refine ⟨?_, rfl, rfl⟩
      show s + k - s = k
      omega

/-- frame: spans disjoint from `[s, s+c)` keep their entries -/
theorem spanAllocate_frame (g : Seg) (s c : Nat) (hc : 0 < c) (hfit : s + c ≤ g.entries)
    (hsz : g.slices.size = g.entries + 1) (y : Span) (hy0 : 0 < y.2.1)
    (hdis : y.1 + y.2.1 ≤ s ∨ s + c ≤ y.1) (hok : SpanOk g y) : SpanOk (spanAllocate g s c) y := by
  rw [spanAllocate_eq]
  have hout : ∀ j, y.1 ≤ j → j < y.1 + y.2.1 → get (spanAllocate' g s c) j = get g j := by
    intro j h1 h2
    rw [spanAllocate'_get g s c j hc hfit hsz]
    have a : ¬ j = s := by omega
    have b : ¬ j = s + c - 1 := by omega
    have d : ¬ (s < j ∧ j ≤ s + min (c - 1) 255) := by omega
    simp [a, b, d]
  obtain ⟨ys, yc, yu⟩ := y
  unfold SpanOk at hok ⊢
  simp only [] at hok hy0 hdis hout ⊢
  obtain ⟨o1, o2, o3, o4, o5⟩ := hok
  refine ⟨?_, ?_, ?_, ?_, ?_⟩
  · rw [hout ys (by omega) (by omega)]; exact o1
  · rw [hout ys (by omega) (by omega)]; exact o2
  · rw [hout ys (by omega) (by omega)]; exact o3
  · intro h; rw [hout (ys + yc - 1) (by omega) (by omega)]; exact o4 h
  · intro hu k hk1 hk2; rw [hout (ys + k) (by omega) (by omega)]; exact o5 hu k hk1 hk2

end SegM


