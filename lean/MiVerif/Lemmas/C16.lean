/- helper lemmas for Props/C16 -/
import MiVerif.Gen.Arith
import MiVerif.Gen.Tables
