"""C19 — drop-in override: every standard entry point is served by one allocator
(Lean theorems by kernel evaluation over tables regenerated from the cmake-built libmimalloc.so / mimalloc.o and the clang AST of
src/alloc-override.c, and over the translated API functions; run-time pair matrix under LD_PRELOAD and with the static override object)."""
import os, sys
import vcommon as V

TRUSTED = ['Lean 4 kernel', 'extract/gen.py gen_override: nm on the cmake-built artifacts + clang-14 AST of src/static.c with -DMI_MALLOC_OVERRIDE (alias attributes and single forwarding calls); extract/translate.py for the API functions (GenE)',
           'the list `required` in Props/C19.lean (entry points of x86-64 Linux / glibc / Itanium C++ ABI and the mimalloc function documented for each) is the specification',
           'dynamic binding itself (ld.so symbol interposition, the linker preferring mimalloc.o over libc) is exercised by the run-time matrix, not modelled',
           'realpath is served through glibc calling the overridden malloc: run-time check only']

def run(chk):
    chk.trusted = TRUSTED
    chk.assumptions = ['platform of this sandbox: x86-64 Linux, glibc, gcc 12 / libstdc++; other platforms take other branches of alloc-override.c (macOS interposing, Windows redirection) which are not compiled here']
    chk.extra['rule'] = ('obligations = theorems of Props/C19.lean; evaluations = (allocating entry point, releasing entry point, size) triples run under LD_PRELOAD and with the static object, C and C++; distinct = the same')
    chk.lean('MiVerif.Props.C19', ['Override', 'Entry'])
    sys.path.insert(0, V.EXTRACT)
    import gen
    try:
        so, obj = gen.build_override_artifacts(V.REPO)
    except Exception as e:
        chk.broken_tie('cmake build of libmimalloc.so / mimalloc.o from the current tree', str(e)[-1200:]); return
    with V.Scratch() as d:
        progs = []
        for name, cc, src, std in (('c', 'gcc', 'c19.c', []), ('cpp', 'g++', 'c19pp.cpp', ['-std=c++17'])):
            dyn = os.path.join(d, 'c19_' + name); st = os.path.join(d, 'c19s_' + name)
            rc, o, e = V.run([cc] + std + ['-O0', '-fno-builtin', '-w', os.path.join(V.HARNESS, src), '-o', dyn, '-ldl'], timeout=300)
            if rc != 0:
                chk.broken_tie('C19 run-time program (%s) does not compile' % name, (o + e)[-1200:]); continue
            progs.append((name + ' LD_PRELOAD', [dyn], {'LD_PRELOAD': so}, 'LD_PRELOAD=<libmimalloc.so built from /repo> ./c19 (harness/%s compiled with %s -O0 -fno-builtin -ldl)' % (src, cc)))
            rc, o, e = V.run([cc] + std + ['-O0', '-fno-builtin', '-w', '-DC19_STATIC', '-I' + os.path.join(V.REPO, 'include'), os.path.join(V.HARNESS, src), obj, '-rdynamic', '-o', st, '-ldl', '-lpthread'], timeout=300)
            if rc != 0:
                # a program that cannot be linked against the override object is itself a finding (duplicate / missing symbols)
                chk.violation('C19/static-link-failed', 'a %s program cannot be linked with mimalloc.o: %s' % (name, (o + e)[-400:].replace('\n', ' ')), {'cmd': '%s harness/%s mimalloc.o -rdynamic -ldl -lpthread' % (cc, src)}); continue
            progs.append((name + ' static mimalloc.o', [st], {}, '%s -DC19_STATIC -I/repo/include harness/%s <mimalloc.o built from /repo> -rdynamic -ldl -lpthread; ./a.out' % (cc, src)))
        for label, cmd, env, how in progs:
            e2 = dict(os.environ); e2.update(env)
            rc, out, err = V.run(cmd, timeout=600, env=e2)
            args = {'variant': label, 'how_to_run': how}
            if 'SKIP' in out:
                chk.violation('C19/not-loaded', '%s: the mimalloc API is not visible in the process (the library was not loaded / the symbols are missing)' % label, args); continue
            if rc != 0 or 'DONE' not in out:
                for l in out.splitlines():
                    if l.startswith('FAIL'):
                        chk.violation('C19/' + l.split()[1], '%s: %s' % (label, l[5:400]), args)
                chk.violation('C19/override-program-crash', '%s: the program died (rc %s): %s' % (label, rc, (err or out)[-400:].replace('\n', ' ')), args); continue
            for l in out.splitlines():
                if l.startswith('FAIL'):
                    chk.violation('C19/' + l.split()[1], '%s: %s' % (label, l[5:400]), args)
                if l.startswith('STAT pairs'):
                    n = int(l.split()[2])
                    for i in range(n):
                        chk.count()
                    for i in range(n):
                        chk.distinct((label, i))
            chk.log('%s: %s' % (label, ' '.join(l for l in out.splitlines() if l.startswith(('STAT', 'DONE')))))
