// C19 run-time check (C++ side): every form of operator new / new[] against every form of operator delete / delete[] and the C entry points.
#include <cstdio>
#include <cstdlib>
#include <cstring>
#include <cstdint>
#include <new>
#include <string>
#include <vector>
#include <memory>
#include <dlfcn.h>
#include <malloc.h>
#ifdef C19_STATIC
#include <mimalloc.h>
#endif
static int nfail = 0; static long npairs = 0;
#define FAIL(key, ...) do { if (nfail++ < 40) { printf("FAIL %s ", key); printf(__VA_ARGS__); printf("\n"); fflush(stdout); } } while (0)
typedef bool (*visit_fn)(const void* heap, const void* area, void* block, size_t block_size, void* arg);
static bool (*p_in_region)(const void*); static size_t (*p_usable)(const void*); static void* (*p_heap_default)(void); static bool (*p_visit)(const void*, bool, visit_fn, void*);
static bool counter(const void* h, const void* a, void* b, size_t bs, void* arg) { (void)h; (void)a; (void)bs; if (b) (*(long*)arg)++; return true; }
static long live() { long n = 0; p_visit(p_heap_default(), true, &counter, &n); return n; }
static size_t cur_n; static const std::align_val_t AL = std::align_val_t(64);
struct AllocForm { const char* name; void* (*fn)(size_t); bool aligned; };
struct ReleaseForm { const char* name; void (*fn)(void*); int needs; /*0 any, 1 only unaligned, 2 only aligned */ };
static AllocForm A[] = {
  { "operator new", [](size_t n) { return ::operator new(n); }, false }, { "operator new[]", [](size_t n) { return ::operator new[](n); }, false },
  { "operator new(nothrow)", [](size_t n) { return ::operator new(n, std::nothrow); }, false }, { "operator new[](nothrow)", [](size_t n) { return ::operator new[](n, std::nothrow); }, false },
  { "operator new(align)", [](size_t n) { return ::operator new(n, AL); }, true }, { "operator new[](align)", [](size_t n) { return ::operator new[](n, AL); }, true },
  { "operator new(align,nothrow)", [](size_t n) { return ::operator new(n, AL, std::nothrow); }, true }, { "operator new[](align,nothrow)", [](size_t n) { return ::operator new[](n, AL, std::nothrow); }, true },
  { "new char[n]", [](size_t n) { return (void*)new char[n]; }, false }, { "malloc", [](size_t n) { return malloc(n); }, false }, { "aligned_alloc(64)", [](size_t n) { return aligned_alloc(64, (n + 63) / 64 * 64); }, true } };
static ReleaseForm R[] = {
  { "operator delete", [](void* p) { ::operator delete(p); }, 0 }, { "operator delete[]", [](void* p) { ::operator delete[](p); }, 0 },
  { "operator delete(size)", [](void* p) { ::operator delete(p, cur_n); }, 0 }, { "operator delete[](size)", [](void* p) { ::operator delete[](p, cur_n); }, 0 },
  { "operator delete(align)", [](void* p) { ::operator delete(p, AL); }, 2 }, { "operator delete[](align)", [](void* p) { ::operator delete[](p, AL); }, 2 },
  { "operator delete(size,align)", [](void* p) { ::operator delete(p, cur_n, AL); }, 2 }, { "operator delete[](size,align)", [](void* p) { ::operator delete[](p, cur_n, AL); }, 2 },
  { "operator delete(nothrow)", [](void* p) { ::operator delete(p, std::nothrow); }, 0 }, { "operator delete[](nothrow)", [](void* p) { ::operator delete[](p, std::nothrow); }, 0 },
  { "operator delete(align,nothrow)", [](void* p) { ::operator delete(p, AL, std::nothrow); }, 2 }, { "operator delete[](align,nothrow)", [](void* p) { ::operator delete[](p, AL, std::nothrow); }, 2 },
  { "free", [](void* p) { free(p); }, 0 }, { "realloc+free", [](void* p) { void* q = realloc(p, cur_n * 2 + 10); free(q ? q : p); }, 1 }, { "delete[] (char*)", [](void* p) { delete[] (char*)p; }, 0 } };
int main() {
#ifdef C19_STATIC
  p_in_region = (bool (*)(const void*))&mi_is_in_heap_region; p_usable = (size_t (*)(const void*))&mi_usable_size; p_heap_default = (void* (*)(void))&mi_heap_get_default; p_visit = (bool (*)(const void*, bool, visit_fn, void*))&mi_heap_visit_blocks;
#else
  p_in_region = (bool (*)(const void*))dlsym(RTLD_DEFAULT, "mi_is_in_heap_region"); p_usable = (size_t (*)(const void*))dlsym(RTLD_DEFAULT, "mi_usable_size");
  p_heap_default = (void* (*)(void))dlsym(RTLD_DEFAULT, "mi_heap_get_default"); p_visit = (bool (*)(const void*, bool, visit_fn, void*))dlsym(RTLD_DEFAULT, "mi_heap_visit_blocks");
#endif
  if (!p_in_region || !p_usable || !p_heap_default || !p_visit) { printf("SKIP mimalloc is not loaded into this process\n"); return 0; }
  static const size_t SZ[] = { 1, 40, 1000, 70000, 3000000, 40000000 };
  for (size_t n : SZ) for (auto& a : A) for (auto& r : R) {
    if (r.needs == 2 && !a.aligned) continue;      // an aligned delete is only defined for memory from an aligned new
    cur_n = n; npairs++;
    long before = live();
    uint8_t* p = (uint8_t*)a.fn(n);
    if (!p) { FAIL("alloc_failed", "%s(%zu)", a.name, n); continue; }
    if (!p_in_region(p)) { FAIL("not_served_by_mimalloc", "%s(%zu) returned %p which is not in the mimalloc heap", a.name, n, (void*)p); continue; }
    if (a.aligned && ((uintptr_t)p % 64) != 0) FAIL("misaligned", "%s(%zu) = %p", a.name, n, (void*)p);
    if (malloc_usable_size(p) != p_usable(p) || p_usable(p) < n) FAIL("usable_size_disagrees", "%s(%zu)", a.name, n);
    memset(p, 0x33, n);
    long mid = live();
    r.fn(p);
    long after = live();
    if (mid != before + 1 || after != before) FAIL("not_released_to_mimalloc", "%s(%zu) then %s: live blocks %ld -> %ld -> %ld", a.name, n, r.name, before, mid, after);
  }
  // library types allocate through the same allocator
  { long before = live(); { std::vector<int> v(100000, 7); std::string s(5000, 'q'); auto u = std::make_unique<double[]>(1000);
      if (!p_in_region(v.data()) || !p_in_region(s.data()) || !p_in_region(u.get())) FAIL("not_served_by_mimalloc", "std::vector / std::string / std::make_unique storage is not in the mimalloc heap"); }
    if (live() != before) FAIL("not_released_to_mimalloc", "library containers"); }
  // nothrow forms report failure with a null pointer
  { void* p = ::operator new((size_t)1 << 60, std::nothrow); if (p != nullptr) FAIL("nothrow_new", "operator new(2^60, nothrow) returned %p", p);
    p = ::operator new[]((size_t)1 << 60, std::nothrow); if (p != nullptr) FAIL("nothrow_new", "operator new[](2^60, nothrow) returned %p", p);
    p = ::operator new((size_t)1 << 60, AL, std::nothrow); if (p != nullptr) FAIL("nothrow_new", "operator new(2^60, align, nothrow) returned %p", p);
    p = ::operator new[]((size_t)1 << 60, AL, std::nothrow); if (p != nullptr) FAIL("nothrow_new", "operator new[](2^60, align, nothrow) returned %p", p); }
  printf("STAT pairs %ld\nDONE fails %d\n", npairs, nfail);
  return 0;
}
