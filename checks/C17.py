"""C17 — hardened builds (T1 over the regenerated secure-mode functions + function-level correspondence + secure-build oracle)."""
import os
import vcommon as V

SECURE = ('-DNDEBUG', '-DMI_BUILD_RELEASE', '-DMI_SECURE=4')
DEBUG = ('-DMI_DEBUG=2', '-DC17_DEBUG_BUILD')
TRUSTED = ['Lean 4 kernel', 'translator extract/translate.py (secure configuration; memory reads as oracles, error reports as effects), compared with the compiled functions on real blocks on every run',
           'harness/c17.c (implementation-side oracle: error callback codes, shadow live set)',
           'modelled rather than verified: the list walk of mi_check_is_double_freex / mi_list_contains and the fill-byte loop of mi_verify_padding (exercised by the harness only)']

def run_c17(chk, d, flags, tag, rounds):
    h = os.path.join(d, 'c17_' + tag)
    ok, log = V.cc_harness(os.path.join(V.HARNESS, 'c17.c'), h, flags=list(flags) + ['-DVERIF_STATIC_C="%s/src/static.c"' % V.REPO])
    if not ok:
        chk.broken_tie('c17 harness (%s) does not compile against the current tree' % tag, log[-1500:]); return None
    rc, out, err = V.run([h, str(chk.seed), str(rounds)], timeout=700)
    if rc != 0 or 'DONE' not in out:
        last = [l for l in out.splitlines() if l and not l.startswith('T ')][-1:] or ['']
        chk.violation('C17/%s-crash' % tag, 'hardened-build harness (%s) crashed (exit %d) after: %s %s' % (tag, rc, last[0], err[-300:].replace('\n', ' ')),
                      {'cmd': 'harness/c17 (%s) seed %d rounds %d' % (' '.join(flags), chk.seed, rounds)})
        return None
    for l in out.splitlines():
        p = l.split()
        if p and p[0] == 'FAIL':
            chk.violation('C17/%s/%s' % (tag, p[1]), '%s build violates %s: %s' % (tag, p[1], ' '.join(p[2:])), {'statement': p[1], 'input': ' '.join(p[2:]), 'config': ' '.join(flags), 'seed': chk.seed, 'rounds': rounds})
        elif p and p[0] == 'STAT':
            chk.extra['%s_%s' % (tag, p[1])] = int(p[2])
            if p[1] != 'tlines':
                chk.count(int(p[2]))
    return out

def run(chk):
    chk.trusted = TRUSTED
    chk.assumptions = ['secure configuration -DMI_SECURE=4 (and -DMI_DEBUG=2 for detection only)', 'exclusions of the property text: forged value decoding into the same area; second free after the area was released; debug assertions after a detected error']
    chk.extra['rule'] = ('obligations = theorems of Props/C17.lean over the regenerated secure-mode functions; evaluations = function-level comparisons on real blocks (T lines) + injected '
                         'double frees / overflowing bytes / forged links with the operations around them; distinct = distinct T lines + distinct injected faults')
    chk.lean('MiVerif.Props.C17', groups=['Secure'])
    rounds = 300 if chk.tier == 'quick' else 3000
    with V.Scratch() as d:
        out = run_c17(chk, d, SECURE, 'secure', rounds)
        if out is not None:
            ok, exe, log = V.build_driver()
            if not ok:
                chk.broken_tie('lean driver does not build (generated signatures changed?)', log[-1500:])
            else:
                rc2, out2, err2 = V.run([exe, 'secure'], input=out, timeout=900)
                summary = [l for l in out2.splitlines() if l.startswith('secureval cases')]
                diffs = [l for l in out2.splitlines() if l.startswith('DIFF') or l.startswith('UNPARSED')]
                if summary:
                    chk.count(int(summary[0].split()[2])); chk.extra['function_level_comparisons'] = int(summary[0].split()[2])
                if rc2 != 0 or diffs or not summary:
                    chk.broken_tie('secure-mode functions: generated Lean and compiled C disagree on real blocks', '\n'.join(diffs[:10]) or (out2[-400:] + err2[-400:]))
                chk.log('secure correspondence: %s' % (summary[0] if summary else 'none'))
                ts = set(l for l in out.splitlines() if l.startswith('T '))
                chk.cov['distinct_nontrivial'] = len(ts) + sum(chk.extra.get('secure_' + k, 0) for k in ('double_frees', 'overflows', 'forged_links'))
                for l in sorted(ts)[::max(1, len(ts) // 4)][:5]:
                    chk.sample(l)
        run_c17(chk, d, DEBUG, 'debug', rounds // 2)
