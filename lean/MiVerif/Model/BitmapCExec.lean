import MiVerif.Model.BitmapC
/-! executable validator for the concurrent bitmap-claim model, proved sound w.r.t. `BitmapC.Step`:
    a log of atomic operations accepted by `run` is an execution of the model, so the invariant (no bit owned twice, every set bit
    owned) holds in every state along it -/
namespace BitmapC

def freeIn (bits : Nat → Bool) (lo hi : Nat) : Bool := (List.range (hi - lo)).all (fun k => bits (lo + k) == false)

theorem freeIn_iff (bits : Nat → Bool) (lo hi : Nat) : freeIn bits lo hi = true ↔ ∀ i, lo ≤ i → i < hi → bits i = false := by
  unfold freeIn
  rw [List.all_eq_true]
  constructor
  · intro h i h1 h2
    have := h (i - lo) (List.mem_range.2 (by omega))
    have e : lo + (i - lo) = i := by omega
    rw [e] at this; simpa using this
  · intro h k hk
    have := h (lo + k) (by omega) (by have := List.mem_range.1 hk; omega)
    simp [this]

def splitAt : List Own → Own → Option (List Own × List Own)
  | [], _ => none
  | x :: xs, o => if x = o then some ([], xs) else (splitAt xs o).map (fun p => (x :: p.1, p.2))

theorem splitAt_spec {l : List Own} {o : Own} {pre post : List Own} (h : splitAt l o = some (pre, post)) : l = pre ++ o :: post := by
  induction l generalizing pre post with
  | nil => simp [splitAt] at h
  | cons x xs ih =>
    unfold splitAt at h
    split at h
    · rename_i hx; cases h; rw [hx]; rfl
    · cases hs : splitAt xs o with
      | none => rw [hs] at h; simp at h
      | some p =>
        rw [hs] at h; simp only [Option.map_some] at h
        cases h
        obtain ⟨p1, p2⟩ := p
        rw [ih hs]; rfl

inductive Lbl where
  | start (a : Nat) | claimTop (o : Own) (b' : Nat) | fail (o : Own) | storeZero (o : Own) (k : Nat) | casClear (o : Own)
  | finish (o : Own) | freeStart (o : Own) | freeChunk (o : Own) (a' : Nat)

def exec (s : St) : Lbl → Option St
  | .start a => some { s with owns := ⟨a, a, 1⟩ :: s.owns }
  | .claimTop o b' =>
    match splitAt s.owns o with
    | some (pre, post) => if o.kind = 1 ∧ o.b < b' ∧ freeIn s.bits o.b b' = true then some { bits := setRange s.bits o.b b' true, owns := pre ++ ⟨o.a, b', 1⟩ :: post } else none
    | none => none
  | .fail o =>
    match splitAt s.owns o with
    | some (pre, post) => if o.kind = 1 then some { s with owns := pre ++ ⟨o.a, o.b, 2⟩ :: post } else none
    | none => none
  | .storeZero o k =>
    match splitAt s.owns o with
    | some (pre, post) => if o.kind = 2 ∧ o.b = 64 * k + 64 ∧ o.a ≤ 64 * k then some { bits := setRange s.bits (64 * k) (64 * k + 64) false, owns := pre ++ ⟨o.a, 64 * k, 2⟩ :: post } else none
    | none => none
  | .casClear o =>
    match splitAt s.owns o with
    | some (pre, post) => if o.kind = 2 then some { bits := setRange s.bits o.a o.b false, owns := pre ++ post } else none
    | none => none
  | .finish o =>
    match splitAt s.owns o with
    | some (pre, post) => if o.kind = 1 then some { s with owns := pre ++ ⟨o.a, o.b, 0⟩ :: post } else none
    | none => none
  | .freeStart o =>
    match splitAt s.owns o with
    | some (pre, post) => if o.kind = 0 then some { s with owns := pre ++ ⟨o.a, o.b, 3⟩ :: post } else none
    | none => none
  | .freeChunk o a' =>
    match splitAt s.owns o with
    | some (pre, post) => if o.kind = 3 ∧ o.a < a' ∧ a' ≤ o.b then some { bits := setRange s.bits o.a a' false, owns := pre ++ (if a' = o.b then [] else [⟨a', o.b, 3⟩]) ++ post } else none
    | none => none

theorem exec_sound {s s' : St} {l : Lbl} (h : exec s l = some s') : Step s s' := by
  cases l with
  | start a => simp only [exec] at h; cases h; exact Step.start s a
  | claimTop o b' =>
    simp only [exec] at h
    split at h
    · rename_i pre post hs
      split at h
      · rename_i hc; cases h
        exact Step.claimTop s pre post o b' (splitAt_spec hs) hc.1 hc.2.1 ((freeIn_iff _ _ _).1 hc.2.2)
      · cases h
    · cases h
  | fail o =>
    simp only [exec] at h
    split at h
    · rename_i pre post hs
      split at h
      · rename_i hc; cases h; exact Step.fail s pre post o (splitAt_spec hs) hc
      · cases h
    · cases h
  | storeZero o k =>
    simp only [exec] at h
    split at h
    · rename_i pre post hs
      split at h
      · rename_i hc; cases h; exact Step.storeZero s pre post o k (splitAt_spec hs) hc.1 hc.2.1 hc.2.2
      · cases h
    · cases h
  | casClear o =>
    simp only [exec] at h
    split at h
    · rename_i pre post hs
      split at h
      · rename_i hc; cases h; exact Step.casClear s pre post o (splitAt_spec hs) hc
      · cases h
    · cases h
  | finish o =>
    simp only [exec] at h
    split at h
    · rename_i pre post hs
      split at h
      · rename_i hc; cases h; exact Step.finish s pre post o (splitAt_spec hs) hc
      · cases h
    · cases h
  | freeStart o =>
    simp only [exec] at h
    split at h
    · rename_i pre post hs
      split at h
      · rename_i hc; cases h; exact Step.freeStart s pre post o (splitAt_spec hs) hc
      · cases h
    · cases h
  | freeChunk o a' =>
    simp only [exec] at h
    split at h
    · rename_i pre post hs
      split at h
      · rename_i hc; cases h; exact Step.freeChunk s pre post o a' (splitAt_spec hs) hc.1 hc.2.1 hc.2.2
      · cases h
    · cases h

def run (s : St) : List Lbl → Option St
  | [] => some s
  | l :: ls => match exec s l with
    | some s' => run s' ls
    | none => none

/-- every state reached by an accepted log satisfies the ownership invariant -/
theorem run_inv {s s' : St} {ls : List Lbl} (hi : Inv s) (h : run s ls = some s') : Inv s' := by
  induction ls generalizing s with
  | nil => simp [run] at h; subst h; exact hi
  | cons l ls ih =>
    simp only [run] at h
    cases he : exec s l with
    | none => simp [he] at h
    | some s1 => rw [he] at h; exact ih (inv_step hi (exec_sound he)) h

end BitmapC
#print axioms BitmapC.run_inv
