import MiVerif.Lemmas.DelayedAux
namespace Delayed

theorem mem_replace {pre post : List Flight} {x y z : Flight} (hz : z ∈ pre ++ y :: post) :
    z = y ∨ z ∈ pre ++ x :: post := by
  simp only [List.mem_append, List.mem_cons] at hz ⊢
  rcases hz with h | rfl | h
  · right; left; exact h
  · left; rfl
  · right; right; right; exact h

theorem mem_drop {pre post : List Flight} {x z : Flight} (hz : z ∈ pre ++ post) : z ∈ pre ++ x :: post := by
  simp only [List.mem_append, List.mem_cons] at hz ⊢; grind

theorem flag_freeing_of_mem {s : St} (hfr : (s.flag = .freeing → nFreeing s.fl = 1) ∧ (s.flag ≠ .freeing → nFreeing s.fl = 0))
    {x : Flight} (hx : x ∈ s.fl) (hf : x.isFreeing = true) : s.flag = .freeing := by
  rcases (inferInstance : Decidable (s.flag = .freeing)) with hne | he
  · have := hfr.2 hne; have := nFreeing_pos_of_mem hx hf; omega
  · exact he

/-- replacing one flight by another with the same `holds`/`isFreeing` classification and the same block keeps everything -/
theorem inv_repc {s : St} (hinv : Inv s) {pre post : List Flight} {b : Blk} {p q : Pc}
    (h : s.fl = pre ++ ⟨b, p⟩ :: post)
    (hh : (⟨b, q⟩ : Flight).holds = (⟨b, p⟩ : Flight).holds)
    (hf : (⟨b, q⟩ : Flight).isFreeing = (⟨b, p⟩ : Flight).isFreeing) :
    Inv { s with fl := pre ++ ⟨b, q⟩ :: post } := by
  obtain ⟨hnd, hfr, hpu, hown, hno, ho1⟩ := hinv
  refine ⟨?_, ?_, ?_, ?_, hno, ho1⟩
  · simp only [allBlocks, h, held_append, held_cons] at hnd ⊢; rw [hh]; exact hnd
  · simp only [h, nFreeing_append, nFreeing_cons] at hfr ⊢; rw [hf]; exact hfr
  · intro x hx hf' hh'
    rcases mem_replace (x := ⟨b, p⟩) hx with rfl | hx
    · exact hpu ⟨b, p⟩ (by rw [h]; simp) (hf ▸ hf') (hh ▸ hh')
    · exact hpu x (h ▸ hx) hf' hh'
  · intro b' hb' x hx hf' hh'
    rcases mem_replace (x := ⟨b, p⟩) hx with rfl | hx
    · exact hown b' hb' ⟨b, p⟩ (by rw [h]; simp) (hf ▸ hf') (hh ▸ hh')
    · exact hown b' hb' x (h ▸ hx) hf' hh'

theorem inv_step {s s' : St} (hinv : Inv s) (hstep : Step s s') : Inv s' := by
  cases hstep with
  | load pre post b h => exact inv_repc hinv h rfl rfl
  | cas2fail pre post b hh ff h => exact inv_repc hinv h rfl rfl
  | load4 pre post b h => exact inv_repc hinv h rfl rfl
  | cas4fail pre post b d h => exact inv_repc hinv h rfl rfl
  | load5 pre post b h => exact inv_repc hinv h rfl rfl
  | cas5fail pre post b hh ff h => exact inv_repc hinv h rfl rfl
  | start b hb =>
    obtain ⟨hnd, hfr, hpu, hown, hno, ho1⟩ := hinv
    rw [nodup_iff_count] at hnd
    refine ⟨?_, ?_, ?_, ?_, hno, ho1⟩
    · rw [nodup_iff_count]; intro y; have hy := hnd y
      have hb' : 1 ≤ s.live.count b := List.count_pos_iff.mpr hb
      simp only [allBlocks, held_cons, Flight.holds, List.count_append, List.count_cons, List.count_erase, List.count_nil, if_true, beq_iff_eq] at hy ⊢
      by_cases hyb : b = y
      · subst hyb; simp only [if_true]; omega
      · simp only [hyb, if_false]; omega
    · simpa [Flight.isFreeing] using hfr
    · intro x hx hf hh
      rcases List.mem_cons.mp hx with rfl | hx
      · simp [Flight.isFreeing] at hf
      · exact hpu x hx hf hh
    · intro b' hb' x hx hf hh
      rcases List.mem_cons.mp hx with rfl | hx
      · simp [Flight.isFreeing] at hf
      · exact hown b' hb' x hx hf hh
  | cas2push pre post b hh ff h heq hne =>
    obtain ⟨hnd, hfr, hpu, hown, hno, ho1⟩ := hinv
    rw [nodup_iff_count] at hnd
    refine ⟨?_, ?_, ?_, ?_, hno, ho1⟩
    · rw [nodup_iff_count]; intro y; have hy := hnd y
      simp only [allBlocks, h, held_append, held_cons, Flight.holds, List.count_append, List.count_cons, List.count_nil, if_true] at hy ⊢
      omega
    · simpa [h, Flight.isFreeing] using hfr
    · intro x hx hf hh'; exact hpu x (h ▸ mem_drop hx) hf hh'
    · intro b' hb' x hx hf hh'; exact hown b' hb' x (h ▸ mem_drop hx) hf hh'
  | cas2delay pre post b hh ff h heq hu =>
    obtain ⟨hnd, hfr, hpu, hown, hno, ho1⟩ := hinv
    obtain ⟨h1, h2⟩ := heq; subst hu
    have hn0 : nFreeing s.fl = 0 := hfr.2 (by rw [h2]; decide)
    refine ⟨?_, ?_, ?_, ?_, ?_, ho1⟩
    · simp only [allBlocks, h, held_append, held_cons, Flight.holds] at hnd ⊢; exact hnd
    · constructor
      · intro _; simp only [h, nFreeing_append, nFreeing_cons, Flight.isFreeing] at hn0 ⊢; simp at hn0 ⊢; omega
      · intro hc; exact absurd rfl hc
    · intro x hx hf hh'
      rcases mem_replace (x := ⟨b, .r2 hh .use⟩) hx with rfl | hx
      · simp [Flight.holds] at hh'
      · have := nFreeing_pos_of_mem (h ▸ hx) hf; omega
    · intro b' hb' x hx hf hh'
      rcases mem_replace (x := ⟨b, .r2 hh .use⟩) hx with rfl | hx
      · simp [Flight.holds] at hh'
      · have := nFreeing_pos_of_mem (h ▸ hx) hf; omega
    · intro hc; cases hc
  | cas4ok pre post b d h heq =>
    obtain ⟨hnd, hfr, hpu, hown, hno, ho1⟩ := hinv
    rw [nodup_iff_count] at hnd
    have hmem : (⟨b, .r4 d⟩ : Flight) ∈ s.fl := by rw [h]; simp
    have hfz : s.flag = .freeing := flag_freeing_of_mem hfr hmem (by simp [Flight.isFreeing])
    refine ⟨?_, ?_, ?_, ?_, ?_, ho1⟩
    · rw [nodup_iff_count]; intro y; have hy := hnd y
      simp only [allBlocks, h, held_append, held_cons, Flight.holds, List.count_append, List.count_cons, List.count_nil, if_true] at hy ⊢
      simp only [Bool.false_eq_true, if_false, List.count_nil]; omega
    · simpa [h, Flight.isFreeing] using hfr
    · intro x hx hf hh'
      rcases mem_replace (x := ⟨b, .r4 d⟩) hx with rfl | hx
      · simp
      · have := hpu x (h ▸ hx) hf hh'
        simp only [List.mem_append, List.mem_cons] at this ⊢; grind
    · intro b' hb' x hx hf hh'
      rcases mem_replace (x := ⟨b, .r4 d⟩) hx with rfl | hx
      · intro hbb
        have hbb' : b = b' := hbb
        subst hbb'
        have hy := hnd b
        have hc : 1 ≤ (s.own.map (·.1)).count b := List.count_pos_iff.mpr (List.mem_map.mpr ⟨(b,true), hb', rfl⟩)
        simp only [allBlocks, h, held_append, held_cons, Flight.holds, List.count_append, List.count_cons, List.count_nil, if_true, beq_self_eq_true] at hy
        omega
      · exact hown b' hb' x (h ▸ hx) hf hh'
    · intro hc; rw [hfz] at hc; cases hc
  | cas5ok pre post b hh ff h heq =>
    obtain ⟨hnd, hfr, hpu, hown, hno, ho1⟩ := hinv
    have hmem : (⟨b, .r5 hh ff⟩ : Flight) ∈ s.fl := by rw [h]; simp
    have hfz : s.flag = .freeing := flag_freeing_of_mem hfr hmem (by simp [Flight.isFreeing])
    have hn1 := hfr.1 hfz
    have hpb := hpu _ hmem (by simp [Flight.isFreeing]) (by simp [Flight.holds])
    have hob := fun b' hb' => hown b' hb' _ hmem (by simp [Flight.isFreeing]) (by simp [Flight.holds])
    refine ⟨?_, ?_, ?_, ?_, ?_, ho1⟩
    · simp only [allBlocks, h, held_append, held_cons, Flight.holds] at hnd ⊢
      simpa using hnd
    · constructor
      · intro hc; cases hc
      · intro _; simp only [h, nFreeing_append, nFreeing_cons, Flight.isFreeing] at hn1 ⊢; simp at hn1 ⊢; omega
    · intro x hx hf hh'; exact hpu x (h ▸ mem_drop hx) hf hh'
    · intro b' hb' x hx hf hh'; exact hown b' hb' x (h ▸ mem_drop hx) hf hh'
    · intro _ hc
      -- b ∈ dl ++ pend ++ own; if in own, its flag must be false (else ownOk contradiction)
      simp only [List.mem_append, List.mem_map] at hpb
      rcases hpb with (hd | hp) | ⟨⟨b', t⟩, hm, hb⟩
      · have : b ∈ s.dl ++ s.pend ++ (s.own.filter (fun p => !p.2)).map (·.1) := by simp [hd]
        rw [hc] at this; cases this
      · have : b ∈ s.dl ++ s.pend ++ (s.own.filter (fun p => !p.2)).map (·.1) := by simp [hp]
        rw [hc] at this; cases this
      · simp only at hb; subst hb
        cases t with
        | true => exact absurd rfl (hob b' hm)
        | false =>
          have : b' ∈ s.dl ++ s.pend ++ (s.own.filter (fun p => !p.2)).map (·.1) := by
            simp only [List.mem_append, List.mem_map, List.mem_filter]
            right; exact ⟨(b', false), ⟨hm, rfl⟩, rfl⟩
          rw [hc] at this; cases this
  | tfCollect =>
    obtain ⟨hnd, hfr, hpu, hown, hno, ho1⟩ := hinv
    rw [nodup_iff_count] at hnd
    refine ⟨?_, hfr, hpu, hown, hno, ho1⟩
    rw [nodup_iff_count]; intro y; have hy := hnd y
    simp only [allBlocks, List.count_append, List.count_nil] at hy ⊢; omega
  | lfCollect h =>
    obtain ⟨hnd, hfr, hpu, hown, hno, ho1⟩ := hinv
    rw [nodup_iff_count] at hnd
    refine ⟨?_, hfr, hpu, hown, hno, ho1⟩
    rw [nodup_iff_count]; intro y; have hy := hnd y
    simp only [allBlocks, h, List.count_append, List.count_nil] at hy ⊢; omega
  | malloc b rest h =>
    obtain ⟨hnd, hfr, hpu, hown, hno, ho1⟩ := hinv
    rw [nodup_iff_count] at hnd
    refine ⟨?_, hfr, hpu, hown, hno, ho1⟩
    rw [nodup_iff_count]; intro y; have hy := hnd y
    simp only [allBlocks, h, List.count_append, List.count_cons] at hy ⊢; omega
  | freeLocal b hb =>
    obtain ⟨hnd, hfr, hpu, hown, hno, ho1⟩ := hinv
    rw [nodup_iff_count] at hnd
    refine ⟨?_, hfr, hpu, hown, hno, ho1⟩
    rw [nodup_iff_count]; intro y; have hy := hnd y
    have hb' : 1 ≤ s.live.count b := List.count_pos_iff.mpr hb
    simp only [allBlocks, List.count_append, List.count_cons, List.count_erase, beq_iff_eq] at hy ⊢
    by_cases hyb : b = y
    · subst hyb; simp only [if_true]; omega
    · simp only [hyb, if_false]; omega
  | takeDl h ho =>
    obtain ⟨hnd, hfr, hpu, hown, hno, ho1⟩ := hinv
    rw [nodup_iff_count] at hnd
    refine ⟨?_, hfr, ?_, hown, ?_, ho1⟩
    · rw [nodup_iff_count]; intro y; have hy := hnd y
      simp only [allBlocks, h, List.count_append, List.count_nil] at hy ⊢; omega
    · intro x hx hf hh'; have := hpu x hx hf hh'
      simp only [h, List.mem_append, List.append_nil, List.not_mem_nil, or_false, false_or] at this ⊢; grind
    · intro hc; have := hno hc; simpa [h] using this
  | procStart b rest h ho =>
    obtain ⟨hnd, hfr, hpu, hown, hno, ho1⟩ := hinv
    rw [nodup_iff_count] at hnd
    refine ⟨?_, hfr, ?_, ?_, ?_, by simp⟩
    · rw [nodup_iff_count]; intro y; have hy := hnd y
      simp only [allBlocks, h, ho, List.map_cons, List.map_nil, List.count_append, List.count_cons, List.count_nil] at hy ⊢; omega
    · intro x hx hf hh'; have := hpu x hx hf hh'
      simp only [h, ho, List.map_cons, List.map_nil, List.mem_append, List.mem_cons, List.mem_nil_iff, or_false] at this ⊢; grind
    · intro b' hb'; simp at hb'
    · intro hc; have := hno hc
      simp only [h, ho, List.filter_nil, List.map_nil, List.append_nil] at this
      simp
  | procSetUse b ho h h' =>
    obtain ⟨hnd, hfr, hpu, hown, hno, ho1⟩ := hinv
    have hn0 : nFreeing s.fl = 0 := hfr.2 h
    refine ⟨?_, ?_, ?_, ?_, ?_, by simp⟩
    · simp only [allBlocks, ho, List.map_cons, List.map_nil] at hnd ⊢; exact hnd
    · constructor
      · intro hc; cases hc
      · intro _; exact hn0
    · intro x hx hf hh; have := nFreeing_pos_of_mem (fl := s.fl) hx hf; omega
    · intro b' hb' x hx hf hh; have := nFreeing_pos_of_mem (fl := s.fl) hx hf; omega
    · intro hc; cases hc
  | procNever b ho h' =>
    obtain ⟨hnd, hfr, hpu, hown, hno, ho1⟩ := hinv
    have hn0 : nFreeing s.fl = 0 := hfr.2 (by rw [h']; decide)
    refine ⟨?_, hfr, ?_, ?_, ?_, by simp⟩
    · simp only [allBlocks, ho, List.map_cons, List.map_nil] at hnd ⊢; exact hnd
    · intro x hx hf hh; have := nFreeing_pos_of_mem (fl := s.fl) hx hf; omega
    · intro b' hb' x hx hf hh; have := nFreeing_pos_of_mem (fl := s.fl) hx hf; omega
    · intro hc; rw [h'] at hc; cases hc
  | procGiveUp b ho =>
    obtain ⟨hnd, hfr, hpu, hown, hno, ho1⟩ := hinv
    rw [nodup_iff_count] at hnd
    refine ⟨?_, hfr, ?_, ?_, ?_, by simp⟩
    · rw [nodup_iff_count]; intro y; have hy := hnd y
      simp only [allBlocks, ho, List.map_cons, List.map_nil, List.count_append, List.count_cons, List.count_nil] at hy ⊢; omega
    · intro x hx hf' hh; have := hpu x hx hf' hh
      simp only [ho, List.map_cons, List.map_nil, List.mem_append, List.mem_cons, List.mem_nil_iff, or_false] at this ⊢; grind
    · intro b' hb'; simp at hb'
    · intro _; simp
  | procFree b ho =>
    obtain ⟨hnd, hfr, hpu, hown, hno, ho1⟩ := hinv
    rw [nodup_iff_count] at hnd
    refine ⟨?_, hfr, ?_, ?_, ?_, by simp⟩
    · rw [nodup_iff_count]; intro y; have hy := hnd y
      simp only [allBlocks, ho, List.map_cons, List.map_nil, List.count_append, List.count_cons, List.count_nil] at hy ⊢; omega
    · intro x hx hf' hh; have := hpu x hx hf' hh
      have hne := hown b (by rw [ho]; simp) x hx hf' hh
      simp only [ho, List.map_cons, List.map_nil, List.mem_append, List.mem_cons, List.mem_nil_iff, or_false] at this ⊢
      rcases this with (h1 | h1) | h1
      · exact Or.inl h1
      · exact Or.inr h1
      · exact absurd h1 hne
    · intro b' hb'; simp at hb'
    · intro hc; have := hno hc; simpa [ho] using this

end Delayed
#print axioms Delayed.inv_step
