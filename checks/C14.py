"""C14 — concurrent arena claims are disjoint and leave nothing reserved behind
(T3-style protocol model with invariant proof over all interleavings; the real bitmap functions checked step by step against the
sequential specification which is proved to be an execution of the model; scheduler oracle on the real arena functions)."""
import os
import vcommon as V
from checks.C16 import trval

TRUSTED = ['Lean 4 kernel', 'hand-written protocol model MiVerif/Model/BitmapC.lean (abstract bits + ghost runs; the mask arithmetic of bitmap.c is abstracted: a chunk is "the next bits of the run")',
           'tie 1: step-wise check of the real bitmap functions against BitSeq (sequential); tie 2: the log of every atomic operation (CAS, fetch-and, store) on the arena in-use bitmap during concurrent _mi_arena_alloc_aligned / _mi_arena_free under the deterministic scheduler is replayed through BitmapC.exec (proved sound: exec_sound, run_inv); plus scheduler search with end-state oracles',
           'sequentially consistent atomics; hooks/verif_hooks.h + harness/vsched.h',
           'translator extract/translate.py for mi_bitmap_mask_ / mi_bitmap_index_* (validated against the compiled functions on every run, every count x bit index)']

def run(chk):
    chk.trusted = TRUSTED
    chk.assumptions = ['sequentially consistent atomics', '3-field private bitmap (150 valid bits) for the step check; 70-block arena (crosses a word boundary) for the scheduler oracle; purge_delay 0 or -1']
    chk.extra['rule'] = ('obligations = theorems of Props/C14.lean (all interleavings of the model); evaluations = steps of the real bitmap functions checked + scheduler runs; distinct = scheduler runs + step lines')
    chk.lean('MiVerif.Props.C14')
    okd, exe, log = V.build_driver()
    if not okd:
        chk.broken_tie('lean driver does not build', log[-1500:])
    thorough = chk.tier == 'thorough'
    with V.Scratch() as d:
        # T1 for the mask / index arithmetic the theorems generated_bitmap_* speak about: generated Lean vs compiled C (every count x bit index)
        trval(chk, d, nrand=300)
        hs = os.path.join(d, 'c14s')
        ok, log = V.cc_harness(os.path.join(V.HARNESS, 'c14.c'), hs, flags=list(V.RELEASE) + ['-DVERIF_STATIC_C="%s/src/static.c"' % V.REPO])
        if not ok:
            chk.broken_tie('C14 harness (sequential) does not compile against the current tree', log[-1500:])
        else:
            jobs = [([hs, 'seq', str(sd), '5000'], None, 120) for sd in range(chk.seed, chk.seed + (12 if thorough else 4))]
            outs = V.pmap(jobs)
            tot = 0
            for (cmd, _, _), (rc, out, err) in zip(jobs, outs):
                if rc != 0 or 'DONE' not in out:
                    chk.violation('C14/bitmap-crash', 'bitmap functions crashed / hung when driven directly (%s): %s' % (' '.join(cmd[1:]), (err or out)[-200:].replace('\n', ' ')), {'cmd': 'harness/c14 ' + ' '.join(cmd[1:])}); continue
                if okd:
                    rc2, out2, err2 = V.run([exe, 'c14'], input=out, timeout=300)
                    summ = [l for l in out2.splitlines() if l.startswith('c14val cases')]
                    diffs = [l for l in out2.splitlines() if l.startswith('DIFF')]
                    if summ:
                        tot += int(summ[0].split()[2])
                    for dl in diffs[:3]:
                        chk.violation('C14/step_violates_specification', 'a step of the real bitmap functions is not a legal claim / unclaim: ' + dl[5:300], {'cmd': 'harness/c14 ' + ' '.join(cmd[1:]), 'line': dl})
                    if rc2 != 0 and not diffs or not summ:
                        chk.broken_tie('step check of the bitmap functions did not run', out2[-300:] + err2[-300:])
                chk.sample([l for l in out.splitlines() if ' claim ' in l][:1][0][:200] if [l for l in out.splitlines() if ' claim ' in l] else '')
            chk.count(tot); chk.extra['bitmap_steps_checked'] = tot
        # concurrent oracle
        n = 300 if thorough else 24
        for tag, flags in (('dbg', ('-DMI_DEBUG=3',)), ('rel', V.RELEASE)):
            hc = os.path.join(d, 'c14c_' + tag)
            ok, log = V.cc_harness(os.path.join(V.HARNESS, 'c14.c'), hc, flags=V.hooked_flags(flags))
            if not ok:
                chk.broken_tie('C14 harness (hooked, %s) does not compile against the current tree' % tag, log[-1500:]); continue
            # variant 0: the arena functions on a 70-block arena; variant 1: the bitmap functions on a private 3-field bitmap with claims of up to 130 bits
            runs = [(chk.seed * 1000 + i, 3 + i % 3, 60 + 20 * (i % 3), (0, 20, 40)[i % 3], (0, 50, 90)[(i // 3) % 3], i % 2) for i in range(2 * n)]
            outs = V.pmap([([hc, 'conc', str(sd), str(nth), str(ops), str(sp), str(stay), '1', str(var)], None, 300) for sd, nth, ops, sp, stay, var in runs])
            vals = V.pmap([([exe, 'c14c'], 'RUN %s seed %d threads %d\n' % (tag, r[0], r[1]) + o[1], 300) for r, o in zip(runs, outs)]) if okd else [(0, '', '')] * len(runs)
            for (sd, nth, ops, sp, stay, var), (rc, out, err), (rc2, out2, err2) in zip(runs, outs, vals):
                chk.count()
                # trace validation: the log of atomic operations on blocks_inuse must be an execution of Model.BitmapC (also for a run that crashed later)
                if okd:
                    dl = [l for l in out2.splitlines() if l.startswith('DIFF')]
                    summ = [l for l in out2.splitlines() if l.startswith('c14cval')]
                    if dl:
                        chk.violation('C14/claim_trace_rejected', 'the log of atomic operations on the arena in-use bitmap is not an execution of the claim model (%s build, schedule seed %d): %s' % (tag, sd, dl[0][5:500]),
                                      {'harness': 'c14 conc', 'build': tag, 'seed': sd, 'threads': nth, 'ops': ops, 'spurious_pct': sp, 'stay_pct': stay, 'events': [l for l in out.splitlines() if l.startswith(('T ', 'INIT'))][:80],
                                       'how_to_run': 'harness/c14 (hooked, %s) conc %d %d %d %d %d 1 %d | lean/.lake/build/bin/midriver c14c' % (' '.join(flags), sd, nth, ops, sp, stay, var)})
                    elif summ and 'rejected 0' in summ[0]:
                        chk.extra['claim_traces_validated'] = chk.extra.get('claim_traces_validated', 0) + 1
                        chk.extra['claim_trace_events'] = chk.extra.get('claim_trace_events', 0) + int(summ[0].split()[4])
                args = {'harness': 'c14 conc', 'build': tag, 'seed': sd, 'threads': nth, 'ops': ops, 'spurious_pct': sp, 'stay_pct': stay, 'variant': ('arena', 'private bitmap')[var],
                        'how_to_run': 'gcc -I/repo/include -Iharness %s -DMI_VERIF_HOOKS=\\"/verif/hooks/verif_hooks.h\\" harness/c14.c -lpthread; ./a.out conc %d %d %d %d %d 0 %d' % (' '.join(flags), sd, nth, ops, sp, stay, var)}
                if rc != 0 or 'DONE' not in out:
                    chk.violation('C14/conc-crash', 'arena claim code crashed / asserted under schedule seed %d (%s build): %s' % (sd, tag, (err or out)[-300:].replace('\n', ' ')), args); continue
                for f in [l for l in out.splitlines() if l.startswith('FAIL')]:
                    chk.violation('C14/' + f.split()[1], 'schedule seed %d (%s build, %d threads): %s' % (sd, tag, nth, f[:300]), args)
                st = dict((l.split()[1], int(l.split()[2])) for l in out.splitlines() if l.startswith('STAT'))
                chk.distinct(('conc', tag, sd, var, st.get('points')))
                for k, v in st.items():
                    chk.extra['conc_' + k] = chk.extra.get('conc_' + k, 0) + v
