import MiVerif.Model.DelayedExec
namespace Delayed

theorem exec_sound {s s' : St} {l : Lbl} (h : exec s l = some s') : Step s s' := by
  cases l with
  | start b =>
    simp only [exec] at h; split at h
    · rename_i hc; cases h; exact Step.start s b hc
    · cases h
  | load b =>
    simp only [exec] at h; split at h
    · rename_i pre b' post hf; cases h
      obtain ⟨h1, h2⟩ := findB_spec hf; simp at h2; subst h2
      exact Step.load s pre post _ h1
    · cases h
  | cas2fail b =>
    simp only [exec] at h; split at h
    · rename_i pre b' hh ff post hf; cases h
      obtain ⟨h1, h2⟩ := findB_spec hf; simp at h2; subst h2
      exact Step.cas2fail s pre post _ hh ff h1
    · cases h
  | cas2push b =>
    simp only [exec] at h; split at h
    · rename_i pre b' hh ff post hf
      split at h
      · rename_i hc; cases h
        obtain ⟨h1, h2⟩ := findB_spec hf; simp at h2; subst h2
        exact Step.cas2push s pre post _ hh ff h1 ⟨hc.1, hc.2.1⟩ hc.2.2
      · cases h
    · cases h
  | cas2delay b =>
    simp only [exec] at h; split at h
    · rename_i pre b' hh ff post hf
      split at h
      · rename_i hc; cases h
        obtain ⟨h1, h2⟩ := findB_spec hf; simp at h2; subst h2
        exact Step.cas2delay s pre post _ hh ff h1 ⟨hc.1, hc.2.1⟩ hc.2.2
      · cases h
    · cases h
  | load4 b =>
    simp only [exec] at h; split at h
    · rename_i pre b' post hf; cases h
      obtain ⟨h1, h2⟩ := findB_spec hf; simp at h2; subst h2
      exact Step.load4 s pre post _ h1
    · cases h
  | cas4fail b =>
    simp only [exec] at h; split at h
    · rename_i pre b' d post hf; cases h
      obtain ⟨h1, h2⟩ := findB_spec hf; simp at h2; subst h2
      exact Step.cas4fail s pre post _ d h1
    · cases h
  | cas4ok b =>
    simp only [exec] at h; split at h
    · rename_i pre b' d post hf
      split at h
      · rename_i hc; cases h
        obtain ⟨h1, h2⟩ := findB_spec hf; simp at h2; subst h2
        exact Step.cas4ok s pre post _ d h1 hc
      · cases h
    · cases h
  | load5 b =>
    simp only [exec] at h; split at h
    · rename_i pre b' post hf; cases h
      obtain ⟨h1, h2⟩ := findB_spec hf; simp at h2; subst h2
      exact Step.load5 s pre post _ h1
    · cases h
  | cas5fail b =>
    simp only [exec] at h; split at h
    · rename_i pre b' hh ff post hf; cases h
      obtain ⟨h1, h2⟩ := findB_spec hf; simp at h2; subst h2
      exact Step.cas5fail s pre post _ hh ff h1
    · cases h
  | cas5ok b =>
    simp only [exec] at h; split at h
    · rename_i pre b' hh ff post hf
      split at h
      · rename_i hc; cases h
        obtain ⟨h1, h2⟩ := findB_spec hf; simp at h2; subst h2
        exact Step.cas5ok s pre post _ hh ff h1 hc
      · cases h
    · cases h
  | tfCollect => simp only [exec] at h; cases h; exact Step.tfCollect s
  | lfCollect =>
    simp only [exec] at h; split at h
    · rename_i hc; cases h; exact Step.lfCollect s hc
    · cases h
  | malloc =>
    simp only [exec] at h; split at h
    · rename_i b rest hc; cases h; exact Step.malloc s b rest hc
    · cases h
  | freeLocal b =>
    simp only [exec] at h; split at h
    · rename_i hc; cases h; exact Step.freeLocal s b hc
    · cases h
  | takeDl =>
    simp only [exec] at h; split at h
    · rename_i hc; cases h; exact Step.takeDl s hc.1 hc.2
    · cases h
  | procStart =>
    simp only [exec] at h; split at h
    · rename_i b rest hp
      split at h
      · rename_i ho; cases h; exact Step.procStart s b rest hp ho
      · cases h
    · cases h
  | procSetUse =>
    simp only [exec] at h; split at h
    · rename_i b ho
      split at h
      · rename_i hc; cases h; exact Step.procSetUse s b ho hc.1 hc.2
      · cases h
    · cases h
  | procNever =>
    simp only [exec] at h; split at h
    · rename_i b ho
      split at h
      · rename_i hc; cases h; exact Step.procNever s b ho hc
      · cases h
    · cases h
  | procGiveUp =>
    simp only [exec] at h; split at h
    · rename_i b ho; cases h; exact Step.procGiveUp s b ho
    · cases h
  | procFree =>
    simp only [exec] at h; split at h
    · rename_i b ho; cases h; exact Step.procFree s b ho
    · cases h

#print axioms exec_sound
end Delayed
