import Driver.TrVal
import Driver.Entry
import Driver.Secure
import Driver.DelayedValidate
import Driver.C20
import Driver.C18
import Driver.C11
import Driver.C01
import Driver.C15
import Driver.C10
import Driver.C14
import Driver.C14c
import Driver.C09
import Driver.C07
import Driver.C13pr
import Driver.C01ext
import Driver.C07cm

def main (args : List String) : IO UInt32 := do
  let stdin ← IO.getStdin
  match args with
  | ["trval"] => TrVal.main stdin
  | ["entry"] => EntryVal.main stdin
  | ["secure"] => SecureVal.main stdin
  | ["delayed"] => DelayedVal.main stdin
  | ["c20"] => C20Val.main stdin
  | ["c18"] => C18Val.main stdin
  | ["c11"] => C11Val.main stdin
  | ["c01"] => C01Val.main stdin
  | ["c15"] => C15Val.main stdin
  | ["c10"] => C10Val.main stdin
  | ["c14"] => C14Val.main stdin
  | ["c14c"] => C14cVal.main stdin
  | ["c09"] => C09Val.main stdin
  | ["c07"] => C07Val.main stdin
  | ["c13pr"] => C13prVal.main stdin
  | ["c01ext"] => C01extVal.main stdin
  | ["c07cm"] => C07cmVal.main stdin
  | _ => do IO.eprintln "usage: midriver <trval|entry|...>"; return 2
