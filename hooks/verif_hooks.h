// Body of the MI_VERIF_HOOKS include (see DESIGN.md §5).  Included twice by include/mimalloc/atomic.h:
// first after the selection of the atomic primitives (redefines every mi_atomic_* operation as a scheduling
// point that logs old/new values), then at the end of the file (yield and lock acquisition).
// Every macro evaluates its arguments exactly once (bitmap.c passes `field++`).
#ifndef MI_VERIF_HOOKS_END
#ifndef VERIF_HOOKS_1
#define VERIF_HOOKS_1
#ifdef __cplusplus
extern "C" {
#endif
// kinds: 1 cas_weak 2 cas_strong 3 load 4 store 5 exchange 6 add 7 and 8 or 9 yield 10 lock-wait 11 sub
void verif_sched_point(int kind, const volatile void* addr);
void verif_log(int kind, const volatile void* addr, unsigned long long a, unsigned long long b, int ok);
int  verif_spurious_fail(void);
#ifdef __cplusplus
}
#endif
#define VERIF_U(x) ((unsigned long long)(uintptr_t)(x))
#undef mi_atomic_cas_weak
#undef mi_atomic_cas_strong
#define mi_atomic_cas_weak(p,expected,desired,ms,mf) \
  (__extension__({ __typeof__(p) _vp = (p); __typeof__(expected) _ve = (expected); __typeof__(*_ve) _des=(desired); verif_sched_point(1,_vp); unsigned long long _old=VERIF_U(*_ve); bool _r=(verif_spurious_fail() ? ((*_ve = mi_atomic(load_explicit)(_vp,mf)), false) : mi_atomic(compare_exchange_strong_explicit)(_vp,_ve,_des,ms,mf)); verif_log(1,_vp,_old,VERIF_U(_des),_r); _r; }))
#define mi_atomic_cas_strong(p,expected,desired,ms,mf) \
  (__extension__({ __typeof__(p) _vp = (p); __typeof__(expected) _ve=(expected); __typeof__(*_ve) _des=(desired); verif_sched_point(2,_vp); unsigned long long _old=VERIF_U(*_ve); bool _r=mi_atomic(compare_exchange_strong_explicit)(_vp,_ve,_des,ms,mf); verif_log(2,_vp,_old,VERIF_U(_des),_r); _r; }))
#undef mi_atomic_load_acquire
#undef mi_atomic_load_relaxed
#undef mi_atomic_store_release
#undef mi_atomic_store_relaxed
#define VERIF_LOAD(p,mo) (__extension__({ __typeof__(p) _vp = (p); verif_sched_point(3,_vp); __typeof__(mi_atomic(load_explicit)(_vp,mi_memory_order(mo))) _r = mi_atomic(load_explicit)(_vp,mi_memory_order(mo)); verif_log(3,_vp,VERIF_U(_r),0,1); _r; }))
#define mi_atomic_load_acquire(p) VERIF_LOAD(p,acquire)
#define mi_atomic_load_relaxed(p) VERIF_LOAD(p,relaxed)
#define VERIF_STORE(p,x,mo) (__extension__({ __typeof__(p) _vp = (p); __typeof__(mi_atomic(load_explicit)(_vp,mi_memory_order(relaxed))) _x = (x); verif_sched_point(4,_vp); mi_atomic(store_explicit)(_vp,_x,mi_memory_order(mo)); verif_log(4,_vp,VERIF_U(_x),0,1); }))
#define mi_atomic_store_release(p,x) VERIF_STORE(p,x,release)
#define mi_atomic_store_relaxed(p,x) VERIF_STORE(p,x,relaxed)
#undef mi_atomic_exchange_relaxed
#undef mi_atomic_exchange_release
#undef mi_atomic_exchange_acq_rel
#define VERIF_RMW(kind,op,p,x,mo) (__extension__({ __typeof__(p) _vp = (p); __typeof__(mi_atomic(load_explicit)(_vp,mi_memory_order(relaxed))) _x = (x); verif_sched_point(kind,_vp); __typeof__(_x) _r = mi_atomic(op)(_vp,_x,mi_memory_order(mo)); verif_log(kind,_vp,VERIF_U(_r),VERIF_U(_x),1); _r; }))
#define mi_atomic_exchange_relaxed(p,x) VERIF_RMW(5,exchange_explicit,p,x,relaxed)
#define mi_atomic_exchange_release(p,x) VERIF_RMW(5,exchange_explicit,p,x,release)
#define mi_atomic_exchange_acq_rel(p,x) VERIF_RMW(5,exchange_explicit,p,x,acq_rel)
#undef mi_atomic_add_relaxed
#undef mi_atomic_sub_relaxed
#undef mi_atomic_add_acq_rel
#undef mi_atomic_sub_acq_rel
#undef mi_atomic_and_acq_rel
#undef mi_atomic_or_acq_rel
#define mi_atomic_add_relaxed(p,x) VERIF_RMW(6,fetch_add_explicit,p,x,relaxed)
#define mi_atomic_sub_relaxed(p,x) VERIF_RMW(11,fetch_sub_explicit,p,x,relaxed)
#define mi_atomic_add_acq_rel(p,x) VERIF_RMW(6,fetch_add_explicit,p,x,acq_rel)
#define mi_atomic_sub_acq_rel(p,x) VERIF_RMW(11,fetch_sub_explicit,p,x,acq_rel)
#define mi_atomic_and_acq_rel(p,x) VERIF_RMW(7,fetch_and_explicit,p,x,acq_rel)
#define mi_atomic_or_acq_rel(p,x)  VERIF_RMW(8,fetch_or_explicit,p,x,acq_rel)
#endif
#else
#ifndef VERIF_HOOKS_2
#define VERIF_HOOKS_2
static inline void verif_yield_hook(void) { verif_sched_point(9, 0); }
#define mi_atomic_yield verif_yield_hook
// a descheduled lock holder must not dead-lock the baton: spin with a scheduling point
static inline void verif_lock_acquire(mi_lock_t* l) { while (!mi_lock_try_acquire(l)) { verif_sched_point(10, l); } }
#define mi_lock_acquire verif_lock_acquire
#endif
#endif
